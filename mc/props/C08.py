"""C08 — accumulative mode: interactions persist from first add to the last snapshot."""
from .. import universes as U
from .. import engine, common, observe, oracles
from ..common import Violation
from ..model import runs_of
from . import base

PROP = 'C08'
LEVEL = 'model_checking'


def decided(M, el):
    """two-sided acceptance rule for accumulative graphs (DESIGN.md §5/C08): missing t -> NetworkXError; a start not
    before any earlier accepted start of the pair -> ok; a start before the pair's first appearance -> ValueError;
    in between the statement is silent -> None"""
    u, v, t, e = el
    if t is None:
        return 'NetworkXError'
    k = M.key(u, v)
    pts = M.pres.get(k)
    if not pts:
        return 'ok'
    if t >= max(pts):
        return 'ok'
    if t < min(pts):
        return 'ValueError'
    return None


def check_transition(conf, hist, op, G, M, out, exp):
    if op[0] in ('node', 'nodes', 'nodes2', 'uattr', 'uattrs', 'observe', 'clear', 'clear_edges'):
        return [], {}
    viols = []
    Mp = M.prev
    els = Mp.elements(op)
    want = None
    if op[0] == 'bulk' and op[4] is None:
        want = 'NetworkXError'
    else:
        tmp = Mp.clone()
        want = 'ok'
        for el in els:
            d = decided(tmp, el)
            if d is None:
                want = None
                break
            if d != 'ok':
                want = d
                break
            tmp.commit_add(*el)
    bad = None
    if out not in engine.LEGIT:
        bad = 'unexpected-exception'
    elif want is not None and out != want:
        bad = 'wrong-verdict'
    if bad:
        viols.append(Violation(PROP, 'outcome', {'cls': conf['cls'], 'kind': bad, 'expected': want, 'observed': out,
                                                 'op': op[0] if op[0] != 'bulk' else 'bulk-' + op[1]},
                               base.case_of(conf, hist + (op,)),
                               {'call': U.op_concrete(conf, op), 'expected': want, 'observed': out}))
    return viols, {'undecided_transitions': 1 if want is None else 0}


def check_state(conf, hist, G, M):
    trip = []
    nodes = observe.probe_nodes(G, conf)
    times = observe.probe_times(G, conf)
    ids = list(G.temporal_snapshots_ids())
    if ids != sorted(M.accepted):
        trip.append(('ids', {'kind': 'ids-differ-from-accepted-instants'}, {'ids': repr(ids), 'accepted at': sorted(M.accepted)}))
    hi = max(ids) if ids else None
    for u in nodes:
        for v in nodes:
            k = M.key(u, v)
            first = min(M.pres[k]) if k in M.pres and M.pres[k] else None
            if bool(G.has_interaction(u, v)) != (first is not None):
                trip.append(('presence', {'kind': 'ever'}, {'pair': repr((u, v))}))
            for t in times:
                want = first is not None and hi is not None and first <= t <= hi
                got = bool(G.has_interaction(u, v, t))
                if got != want:
                    trip.append(('presence', {'kind': 'presence-' + ('extra' if got else 'missing'),
                                              'where': 'before-first' if first is not None and t < first else
                                              ('after-last-snapshot' if hi is not None and t > hi else 'inside')},
                                 {'pair': repr((u, v)), 't': t, 'first add': first, 'last snapshot': hi, 'has_interaction': got}))
                    break
    for t in times:                      # per-instant counts are read-only: asking must not create snapshot ids
        G.interactions_per_snapshots(t)
    if list(G.temporal_snapshots_ids()) != ids:
        trip.append(('ids', {'kind': 'ids-changed-by-a-read-only-query'}, {'before': repr(ids), 'after': repr(G.temporal_snapshots_ids())}))
    st = list(G.stream_interactions())
    ts = [ev[3] for ev in st]
    if any(a > b for a, b in zip(ts, ts[1:])):
        trip.append(('stream', {'kind': 'not-chronological'}, {'stream': repr(st)}))
    exp_ev = sorted(((repr(k), min(s)) for k, s in M.pres.items() if s))
    got_ev = sorted((repr(M.key(ev[0], ev[1])), ev[3]) for ev in st if ev[2] == '+')
    if any(ev[2] != '+' for ev in st):
        trip.append(('stream', {'kind': 'minus-event-in-accumulative-mode'}, {'stream': repr(st)}))
    elif got_ev != exp_ev:
        trip.append(('stream', {'kind': 'plus-events-differ', 'more': len(got_ev) > len(exp_ev)},
                     {'stream': repr(st), 'expected one + per pair at': repr(exp_ev)}))
    multi = sum(1 for s in M.pres.values() if len(s) >= 2)
    cnt = {'evaluations': len(nodes) ** 2 * (len(times) + 1), 'nontrivial': 1 if len(hist) >= 2 and M.pres else 0,
           'states_pair_readded': 1 if multi else 0,
           'states_other_pair_extends': 1 if len(M.pres) >= 2 and len(set(min(s) for s in M.pres.values() if s)) >= 2 else 0}
    return trip, cnt, {'relations': [repr(sorted((repr(k), min(s)) for k, s in M.pres.items() if s)) + repr(hi)]}


class Spec(engine.Spec):
    prop = PROP
    pure_queries = True

    def on_transition(self, conf, hist, op, G, M, out, exp):
        return check_transition(conf, hist, op, G, M, out, exp)

    def on_state(self, conf, hist, G, M):
        trip, cnt, sets = check_state(conf, hist, G, M)
        return [Violation(PROP, sub, dict(sig, cls=conf['cls']), base.case_of(conf, hist), det) for sub, sig, det in trip], cnt, sets


def run(tier, seed):
    known = common.load_known()
    rep = common.Report(PROP, tier, seed, LEVEL)
    p = base.tier_params(tier)
    spec = Spec()
    sums = {}
    for fl, reduced in base.flavours_for(tier, seed, (0, 1, 2, 3, 5, 6)):
        for cls in ('DynGraph', 'DynDiGraph'):
            conf = U.conf_make(cls, False, fl, base.window_for(tier, fl, p['w']))
            total, summary = (base.explore_universes(spec, conf, tier, which=base.REDUCED['which'], params=base.REDUCED['params'])
                              if reduced else base.explore_universes(spec, conf, tier, params={'two_depth': 4} if tier == 'quick' else {'two_depth': 5}))
            rep.cov['per_universe'] += summary
            rep.cov['states'] += total.states
            rep.cov['transitions'] += total.transitions
            for k, v in total.counters.items():
                sums[k] = sums.get(k, 0) + v
            sums['distinct_relations'] = sums.get('distinct_relations', 0) + len(total.sets['relations'])
            rep.add_violations(total.violations, known)
    rep.cov['traces_validated_against_impl'] = rep.cov['transitions']
    rep.cov['evaluations'] = sums.get('evaluations', 0)
    rep.cov['distinct_nontrivial'] = sums.get('nontrivial', 0)
    rep.cov['counters'] = sums
    for need in ('states_pair_readded', 'states_other_pair_extends'):
        if sums.get(need, 0) < 10:
            rep.broken.append('%s = %d' % (need, sums.get(need, 0)))
    conf0 = U.conf_make('DynGraph', False, 0, p['w'])
    h = (('add', 0, 1, 1, 2), ('add', 1, 2, 3, None), ('add', 0, 1, 2, None))
    G, M, outs = engine.execute(conf0, h)
    rep.sample({'conf': U.conf_name(conf0), 'calls': [U.op_concrete(conf0, o) for o in h], 'outcomes': [o[0] for o in outs],
                'stream': repr(list(G.stream_interactions())), 'ids': list(G.temporal_snapshots_ids()),
                'has_interaction(0,1,3)': G.has_interaction(0, 1, 3)})
    rep.assumptions = ['PYTHONHASHSEED=0', 'which re-adds are rejected between the first and the latest accepted start of a pair '
                       'is not stated by the property: either outcome is accepted there (counter undecided_transitions)']
    return rep.finish(known, base.UNIVERSE_NOTE[4:] + ' || ' + 'BFS over add_* histories with edge_removal=False, both classes (U1,U2,TWO,U3); every distinct state: '
                             'has_interaction(u,v,t) <=> first(u,v) <= t <= max snapshot id on all ordered pairs x probe instants, '
                             'ids == instants of accepted adds, stream == one + per pair at its first appearance and no -; '
                             'every transition: outcome class per the two-sided rule; non-trivial = >= 2 calls and a pair present')


def replay(case):
    conf = case['conf']
    hist = U.hist_from_json(case['history'])
    G, M, outs = engine.execute(conf, hist)
    viols = []
    if hist:
        viols += check_transition(conf, hist[:-1], hist[-1], G, M, outs[-1][0], outs[-1][1])[0]
    if all(o[0] in engine.LEGIT for o in outs):
        trip, _, _ = check_state(conf, hist, G, M)
        viols += [Violation(PROP, sub, dict(sig, cls=conf['cls']), base.case_of(conf, hist), det) for sub, sig, det in trip]
    return viols
