"""C04 — snapshot ids are the inhabited instants; per-snapshot counts are exact."""
from .. import oracles
from . import base

PROP = 'C04'
LEVEL = 'model_checking'


def state_fn(conf, hist, G, M):
    ctx = oracles.presence_ctx(G, conf)
    trip = oracles.snapshots(G, conf, ctx)
    ids = G.temporal_snapshots_ids()
    multi = any(len(oracles.pairs_at(G, ctx[2], t)) >= 2 for t in ids)
    cnt = {'evaluations': len(ctx[1]) + 3, 'nontrivial': 1 if len(ids) >= 2 else 0,
           'states_shared_instant': 1 if multi else 0}
    return trip, cnt, {'id_lists': [repr(ids)]}


def run(tier, seed):
    return base.run_state_property(
        PROP, LEVEL, state_fn, tier, seed, pure=True, vacuity={'states_shared_instant': 10},
        sample_fn=base.default_samples,
        rule='BFS over add_* histories (U1,U2,TWO,U3), both classes, removal enabled; in every distinct state: '
             'temporal_snapshots_ids() strictly ascending and == inhabited instants of the has_interaction matrix; '
             'interactions_per_snapshots(t) == number of distinct pairs present at t for every probe instant (0 elsewhere); '
             'no-argument form == that map on exactly the ids; avg_number_of_nodes == mean number_of_nodes(t); '
             'non-trivial = >= 2 snapshot ids')


def replay(case):
    return base.replay_state_property(PROP, state_fn, case)
