"""Shared driver pieces for the history-exploring properties."""
import os
from .. import universes as U
from .. import engine, common


def flavours_for(tier, seed, allowed=(0, 1, 2, 3)):
    """quick: flavour 0 plus one more selected by VERIF_SEED; thorough: all.  The seed never
    samples inside a space: it rotates which complete bounded space is enumerated on top."""
    allowed = list(allowed)
    if tier == 'thorough':
        return allowed
    rest = [f for f in allowed if f != 0]
    out = [0] if 0 in allowed else []
    if rest:
        out.append(rest[seed % len(rest)])
    return out


def tier_params(tier):
    if tier == 'thorough':
        return dict(w=5, u1_depth=5, u2_depth=3, two_depth=4, u3_depth=2)
    return dict(w=4, u1_depth=4, u2_depth=2, two_depth=3, u3_depth=1)


def explore_universes(spec, conf, tier, which=('U1', 'U2', 'TWO', 'U3'), keep_states=False, params=None):
    """run the named universes for one configuration with a shared de-duplication set;
    returns (merged Result, per-universe summary list)"""
    p = dict(tier_params(tier))
    if params:
        p.update(params)
    seen = set()
    total = engine.Result()
    summary = []
    plans = []
    if 'U1' in which:
        plans.append(('U1', U.alphabet_U1(conf), p['u1_depth'], ()))
    if 'U2' in which:
        plans.append(('U2', U.alphabet_U2(conf), p['u2_depth'], ()))
    if 'TWO' in which:
        plans.append(('TWO', U.alphabet_two_pairs(conf), p['two_depth'], ()))
    if 'U3' in which:
        plans.append(('U3', U.alphabet_U2(conf), p['u3_depth'], U.seeds_U3(conf)))
    for name, alpha, depth, seeds in plans:
        r = engine.bfs(spec, conf, alpha, depth, seeds=seeds, seen=seen, keep_states=keep_states)
        summary.append({'universe': name, 'conf': U.conf_name(conf), 'alphabet': len(alpha), 'depth': depth,
                        'seeds': len(seeds), 'states': r.states, 'transitions': r.transitions,
                        'per_depth_new_states': r.per_depth, 'outcomes': dict(r.outcomes), 'dead': r.dead})
        r.merge_into(total)
        if keep_states:
            total.state_hists += r.state_hists
    return total, summary


def case_of(conf, hist, **extra):
    c = {'conf': conf, 'history': U.hist_to_json(hist),
         'calls': [U.op_concrete(conf, op) for op in hist]}
    c.update(extra)
    return c


def tier_seed(argv_tier):
    tier = argv_tier          # the command line decides; VERIF_TIER is informational
    try:
        seed = int(os.environ.get('VERIF_SEED', '0'))
    except ValueError:
        seed = 0
    return tier, seed
