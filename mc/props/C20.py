"""C20 — delta-conformity is bounded, relabelling-invariant, consistent when sliding (relations, exhaustive universe)."""
import collections
import itertools
from .. import graphs, pathsoracle as po, common
from ..common import Violation
from . import pathbase

PROP = 'C20'
LEVEL = 'exploration'
ALPHAS = [1, 2.5, 1 / 3]     # 1/3 is not a multiple of 0.01: its 2-decimal result key differs from the value
PATH_TYPES = ['shortest', 'fastest', 'foremost', 'fastest_shortest', 'shortest_fastest']
TOL = 1e-9
_PATCHED = [False]


def _silence():
    """progress bars only: replace tqdm inside the two algorithm modules by a pass-through"""
    if _PATCHED[0]:
        return
    import dynetx.algorithms.assortativity as am
    import dynetx.algorithms.paths as pm

    class _T:
        @staticmethod
        def tqdm(it=None, *a, **k):
            return it
    am.tqdm = _T.tqdm
    pm.tqdm = _T
    _PATCHED[0] = True


def build_labelled(c, sub, labelling, perm=None):
    import dynetx as dn
    nodes, T, pairs, atoms = graphs.universe(c)
    perm = perm or list(range(len(nodes)))
    G = dn.DynGraph()
    for i, n in enumerate(nodes):
        G.add_node(nodes[perm[i]], lab=labelling[i])
    for (i, j, t) in sorted((atoms[x] for x in sub), key=lambda a: (a[2], a[0], a[1])):
        G.add_interaction(nodes[perm[i]], nodes[perm[j]], T[t])
    return G


def _get(res, alpha, node):
    return res['%.2f' % alpha]['lab'].get(node)


def swap_(x):
    return 'B' if x == 'A' else 'A'


def _close(a, b):
    return a is not None and b is not None and abs(a - b) <= TOL


def eval_graph(c, sub):
    import dynetx.algorithms as al
    _silence()
    cnt = collections.Counter()
    viols = []
    nodes, T, pairs, atoms = graphs.universe(c)
    n = len(nodes)
    P = graphs.presence_of(c, sub)
    ids = sorted(set(t for (_, _, t) in P))
    labellings = list(itertools.product('AB', repeat=n))
    if c.get('focus'):
        labellings = [labellings[0], labellings[-1], tuple('AB'[i % 2] for i in range(n)), tuple('AB'[(i // 2) % 2] for i in range(n))]
        if c.get('labs'):
            labellings = [labellings[0], labellings[2], tuple(swap_(x) for x in labellings[2])][:c['labs']]
    swap = {'A': 'B', 'B': 'A'}
    case = lambda q: {'gconf': c, 'atoms': list(sub), 'query': q}
    starts = list(T) + [T[-1] + 2]
    if c.get('focus'):
        starts = [T[0], T[1]][:c.get('starts_n', 2)]
    deltas = c.get('deltas', [0, 1, 2, 3])
    path_types = c.get('path_types', PATH_TYPES)
    Gs = {L: build_labelled(c, sub, L) for L in labellings}
    allR = {}
    perms = [[1, 0] + list(range(2, n)), list(range(1, n)) + [0]]
    for start in starts:
        for delta in deltas:
            end = start + delta
            window_ids = [t for t in ids if start <= t <= end]
            Pw = set((u, v, t) for (u, v, t) in P if start <= t <= end)
            present = sorted(set(u for (u, v, t) in P if t == start), key=repr)
            reach = {}
            for u in present:
                bp = po.brute_paths(Pw, False, window_ids, u, None, None, None) if window_ids else set()
                reach[u] = any(p[-1][1] != u for p in bp)
            for pt in path_types:
                R = {}
                allR.setdefault((start, delta), {})[pt] = R
                for L in labellings:
                    cnt['queries'] += 1
                    try:
                        R[L] = al.delta_conformity(Gs[L], start, delta, ALPHAS, ['lab'], path_type=pt)
                    except Exception as ex:
                        viols.append(Violation(PROP, 'call', {'kind': 'raises', 'exc': type(ex).__name__, 'path_type': pt}, case([start, delta, pt, ''.join(L)]),
                                               {'graph': graphs.describe(c, sub), 'labels': ''.join(L), 'call': 'delta_conformity(G, %r, %r, %r, ["lab"], path_type=%r)' % (start, delta, ALPHAS, pt),
                                                'raised': repr(ex)[:200]}))
                        R[L] = 'raised'
                for L in labellings:
                    r = R[L]
                    if r == 'raised':
                        continue
                    q = case([start, delta, pt, ''.join(L)])
                    det = {'graph': graphs.describe(c, sub), 'labels': dict(zip(map(repr, nodes), L)), 'start': start, 'delta': delta, 'path_type': pt}
                    if not window_ids:
                        if r is not None:
                            viols.append(Violation(PROP, 'shape', {'kind': 'empty-window-not-None'}, q, dict(det, got=repr(r)[:200])))
                        continue
                    if r is None:
                        viols.append(Violation(PROP, 'shape', {'kind': 'None-for-non-empty-window'}, q, det))
                        continue
                    if sorted(r) != sorted('%.2f' % a for a in ALPHAS) or any(list(r[k]) != ['lab'] for k in r):
                        viols.append(Violation(PROP, 'shape', {'kind': 'alpha-or-profile-keys'}, q, dict(det, got=repr(r)[:200])))
                        continue
                    for a in ALPHAS:
                        got_nodes = sorted(r['%.2f' % a]['lab'], key=repr)
                        if got_nodes != present:
                            viols.append(Violation(PROP, 'shape', {'kind': 'node-set', 'more': len(got_nodes) > len(present)}, q,
                                                   dict(det, got=repr(got_nodes), expected=repr(present))))
                            break
                        for u in present:
                            s = _get(r, a, u)
                            cnt['scores'] += 1
                            if s != 0:
                                cnt['nonzero_scores'] += 1
                            if not (-1 - TOL <= s <= 1 + TOL):
                                viols.append(Violation(PROP, 'range', {'kind': 'score-outside-[-1,1]', 'path_type': pt}, q, dict(det, node=repr(u), alpha=a, score=s)))
                            if len(set(L)) == 1:
                                want = 1.0 if reach[u] else 0.0
                                if abs(s - want) > TOL:
                                    viols.append(Violation(PROP, 'uniform', {'kind': 'uniform-labels-score', 'reaches_other': reach[u], 'path_type': pt}, q,
                                                           dict(det, node=repr(u), alpha=a, score=s, expected=want)))
                            Ls = tuple(swap[x] for x in L)
                            r2 = R.get(Ls)
                            if r2 not in (None, 'raised') and not _close(s, _get(r2, a, u)):
                                viols.append(Violation(PROP, 'invariance', {'kind': 'label-renaming-changes-score', 'path_type': pt}, q,
                                                       dict(det, node=repr(u), alpha=a, score=s, score_with_swapped_labels=_get(r2, a, u))))
                # node renaming (a transposition and a full cycle generate every permutation)
                if pt in ('shortest', 'foremost') and window_ids and not c.get('focus'):
                    for L in labellings[1:-1:2] if c.get('light_renaming') else labellings:
                        if R[L] in (None, 'raised'):
                            continue
                        for perm in perms:
                            cnt['queries'] += 1
                            Gp = build_labelled(c, sub, L, perm)
                            try:
                                rp = al.delta_conformity(Gp, start, delta, ALPHAS, ['lab'], path_type=pt)
                            except Exception as ex:
                                viols.append(Violation(PROP, 'call', {'kind': 'raises-after-renaming', 'exc': type(ex).__name__}, case([start, delta, pt, ''.join(L), perm]),
                                                       {'graph': graphs.describe(c, sub)}))
                                continue
                            for a in ALPHAS:
                                for i, u in enumerate(nodes):
                                    s = _get(R[L], a, u)
                                    sp = None if rp is None else _get(rp, a, nodes[perm[i]])
                                    if (s is None) != (sp is None) or (s is not None and abs(s - sp) > TOL):
                                        viols.append(Violation(PROP, 'invariance', {'kind': 'node-renaming-changes-score', 'path_type': pt},
                                                               case([start, delta, pt, ''.join(L), perm]),
                                                               {'graph': graphs.describe(c, sub), 'labels': ''.join(L), 'renaming': {repr(nodes[i]): repr(nodes[perm[i]]) for i in range(n)},
                                                                'node': repr(u), 'alpha': a, 'score': s, 'score_after_renaming': sp, 'start': start, 'delta': delta}))
    # sliding == pointwise
    mixed = [L for L in labellings if len(set(L)) > 1][:2] + [labellings[0]]
    # how often the path type matters at all (vacuity guard for the quantifier "all five path types")
    for (st, de), bypt in allR.items():
        if 'shortest' in bypt and 'fastest' in bypt and any(repr(bypt['shortest'].get(L)) != repr(bypt['fastest'].get(L)) for L in labellings):
            cnt['queries_where_fastest_differs_from_shortest'] += 1
    for L in ([] if c.get('focus') and not c.get('sliding') else mixed):
        for delta in deltas:
            for pt in PATH_TYPES:
                cnt['queries'] += 1
                try:
                    sl = al.sliding_delta_conformity(Gs[L], delta, ALPHAS, ['lab'], path_type=pt)
                except Exception as ex:
                    if ids:
                        viols.append(Violation(PROP, 'sliding', {'kind': 'sliding-raises', 'exc': type(ex).__name__}, case(['sliding', delta, pt, ''.join(L)]),
                                               {'graph': graphs.describe(c, sub), 'raised': repr(ex)[:200]}))
                    continue
                want = {}
                for t in ids:
                    if t + delta < ids[-1]:
                        dc = al.delta_conformity(Gs[L], t, delta, ALPHAS, ['lab'], path_type=pt)
                        if dc is None:
                            continue
                        for ak, data in dc.items():
                            for attr, nv in data.items():
                                for nd, v in nv.items():
                                    want.setdefault(ak, {}).setdefault(attr, {}).setdefault(nd, []).append((t + delta, v))
                got = {ak: {attr: {nd: list(seq) for nd, seq in nv.items()} for attr, nv in data.items()} for ak, data in sl.items()}
                if want:
                    cnt['sliding_nonempty'] += 1
                same = set(got) == set(want) and all(
                    set(got[a]) == set(want[a]) and all(
                        set(got[a][p]) == set(want[a][p]) and all(
                            len(got[a][p][nd]) == len(want[a][p][nd]) and all(x[0] == y[0] and abs(x[1] - y[1]) <= TOL for x, y in zip(got[a][p][nd], want[a][p][nd]))
                            for nd in want[a][p]) for p in want[a]) for a in want)
                if not same:
                    viols.append(Violation(PROP, 'sliding', {'kind': 'sliding-differs-from-pointwise', 'path_type': pt}, case(['sliding', delta, pt, ''.join(L)]),
                                           {'graph': graphs.describe(c, sub), 'labels': ''.join(L), 'delta': delta, 'got': repr(got)[:300], 'expected': repr(want)[:300]}))
    if len(ids) >= 2 and len(sub) >= 2:
        cnt['nontrivial_graphs'] += 1
    return viols[:6], cnt


# Two routes from node 0 to node 3: a two-hop one whose middle node has to wait (it stays active through contacts with 5) and a
# three-hop one that is faster; plus variations.  Every subset is enumerated: the family in which 'shortest', 'fastest' and the
# combined criteria select different paths, so that the path-type argument is observable (also through sliding_delta_conformity).
TWO_ROUTES = [(0, 1, 0), (1, 5, 1), (1, 5, 2), (1, 3, 3), (0, 2, 1), (2, 4, 2), (3, 4, 3), (3, 5, 4), (0, 1, 1), (2, 4, 1), (1, 3, 2), (0, 2, 0), (3, 4, 2)]


def two_routes(m, **kw):
    c = graphs.gconf('DynGraph', 0, 6, 5, m)
    c.update({'template': TWO_ROUTES[:m], 'focus': True, 'sliding': True, 'labs': 3})
    c.update(kw)
    return c


def confs(tier, seed):
    if tier == 'quick':
        c = graphs.gconf('DynGraph', 0, 3, 3, 4)
        c2 = graphs.gconf('DynGraph', 1, 3, 3, 3)
        c3 = graphs.gconf('DynGraph', 2, 3, 3, 2 + seed % 2)
        # 4 nodes: hop-distance profiles with holes ({1,3}) only exist from 4 nodes on; focused menu (uniform + 2 mixed
        # labellings, start in the first two instants, full-width delta, no renaming/sliding) keeps it cheap
        c4 = graphs.gconf('DynGraph', 0, 4, 3, 4)
        c4.update({'focus': True, 'deltas': [2, 3], 'path_types': ['shortest', 'foremost', 'fastest_shortest']})
        # 5 nodes: the order in which hop ranks are discovered can differ from their numeric order (1, 3, 2) only from 5
        # nodes on; narrowest menu (first instant, full-width delta, uniform + one mixed labelling and its swap)
        c5 = graphs.gconf('DynGraph', 0, 5, 3, 4)
        c5.update({'focus': True, 'deltas': [2], 'path_types': ['shortest', 'foremost'], 'starts_n': 1, 'labs': 3})
        # contact sequences on 5 nodes x 5 instants (one interaction per instant): the order of discovery 1, 3, 2 needs a
        # node first met far away and later reached by a shortcut, i.e. depth in time rather than width
        c6 = graphs.gconf('DynGraph', 0, 5, 5, 5)
        c6.update({'seq': True, 'focus': True, 'deltas': [4], 'path_types': ['shortest'], 'starts_n': 1, 'labs': 2})
        c7 = two_routes(10, deltas=[3], path_types=PATH_TYPES, starts_n=1, labs=2)
        return [c, c2, c3, c4, c5, c6, c7]
    out = []
    for fl in (0, 1):
        out.append(graphs.gconf('DynGraph', fl, 3, 3, 9))
        c = graphs.gconf('DynGraph', fl, 4, 3, 3)
        c['light_renaming'] = True
        out.append(c)
        c4 = graphs.gconf('DynGraph', fl, 4, 4, 4)
        c4.update({'focus': True, 'deltas': [2, 3]})
        out.append(c4)
    c5 = graphs.gconf('DynGraph', 0, 5, 3, 5)
    c5.update({'focus': True, 'deltas': [2], 'path_types': ['shortest', 'foremost', 'fastest'], 'starts_n': 1, 'labs': 3})
    out.append(c5)
    c6 = graphs.gconf('DynGraph', 0, 5, 5, 5)
    c6.update({'seq': True, 'focus': True, 'deltas': [3, 4], 'path_types': PATH_TYPES, 'labs': 3})
    out.append(c6)
    out.append(two_routes(13, deltas=[2, 3], path_types=PATH_TYPES))
    return out


def run(tier, seed):
    _silence()
    cfs = confs(tier, seed)
    import dynetx.algorithms as al
    c0 = cfs[0]
    sub = (0, 4, 8)
    G = build_labelled(c0, sub, ('A', 'B', 'A'))
    sample = {'universe': graphs.gconf_name(c0), 'graph': graphs.describe(c0, sub), 'labels': 'A,B,A',
              'call': 'delta_conformity(G, %r, 2, [1, 2.5], ["lab"])' % graphs.universe(c0)[1][0],
              'result': repr(al.delta_conformity(G, graphs.universe(c0)[1][0], 2, ALPHAS, ['lab']))[:400]}
    return pathbase.run(
        PROP, LEVEL, eval_graph, tier, seed, cfs, nontrivial_key='nontrivial_graphs',
        vacuity={'nonzero_scores': 1000, 'sliding_nonempty': 100, 'queries_where_fastest_differs_from_shortest': 4}, samples=[sample],
        assumptions=['scores are compared at absolute tolerance 1e-9', 'static categorical labels, one label attribute, no hierarchies',
                     'tqdm progress output of the two algorithm modules is replaced by a pass-through'],
        rule='every labelled undirected temporal graph of the universes in per_universe (all subsets of pairs x T up to k timed interactions x '
             'all 2-valued labellings incl. the uniform ones) x start in T + one non-id instant x delta x alphas [1, 2.5, 1/3] x the 5 path types: '
             'None iff no snapshot id in [start,start+delta]; keys = alphas -> profile -> exactly the nodes with an interaction at start; scores in '
             '[-1,1]; equality with the run on swapped label values; equality with the runs on the graph renamed by a transposition and by a full '
             'cycle of the node ids; uniform labels => 1 for a node that reaches another node in the window (independent brute force) and 0 '
             'otherwise; sliding_delta_conformity == the pointwise results stamped t+delta for every id t with t+delta < last id; '
             'evaluations = library calls; distinct_nontrivial = graphs with >= 2 ids and >= 2 timed interactions')


def replay(case):
    v, _ = eval_graph(case['gconf'], tuple(case['atoms']))
    return v
