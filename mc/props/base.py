"""Shared driver pieces for the history-exploring properties."""
import os
from .. import universes as U
from .. import engine, common


def flavours_for(tier, seed, allowed=(0, 1, 2, 3)):
    """quick: flavour 0 plus one more selected by VERIF_SEED; thorough: all.  The seed never
    samples inside a space: it rotates which complete bounded space is enumerated on top."""
    allowed = list(allowed)
    if tier == 'thorough':
        return allowed
    rest = [f for f in allowed if f != 0]
    out = [0] if 0 in allowed else []
    if rest:
        out.append(rest[seed % len(rest)])
    return out


def tier_params(tier):
    if tier == 'thorough':
        return dict(w=5, u1_depth=6, u2_depth=3, two_depth=4, u3_depth=2)
    return dict(w=4, u1_depth=5, u2_depth=2, two_depth=3, u3_depth=1)


def explore_universes(spec, conf, tier, which=('U0', 'U1', 'U2', 'TWO', 'U3'), keep_states=False, params=None, opfilter=None):
    """run the named universes for one configuration with a shared de-duplication set;
    returns (merged Result, per-universe summary list)"""
    p = dict(tier_params(tier))
    if params:
        p.update(params)
    seen = set()
    total = engine.Result()
    summary = []
    plans = []
    if 'U0' in which:
        plans.append(('U0', U.alphabet_U0(conf), p.get('u0_depth', 8), ()))
    if 'U1' in which:
        plans.append(('U1', U.alphabet_U1(conf), p['u1_depth'], ()))
    if 'U2' in which:
        plans.append(('U2', U.alphabet_U2(conf), p['u2_depth'], ()))
    if 'TWO' in which:
        plans.append(('TWO', U.alphabet_two_pairs(conf), p['two_depth'], ()))
    if 'U3' in which:
        plans.append(('U3', U.alphabet_U2(conf), p['u3_depth'], U.seeds_U3(conf)))
    for name, alpha, depth, seeds in plans:
        if opfilter:
            alpha = [o for o in alpha if opfilter(o)]
            seeds = [s for s in seeds if all(opfilter(o) for o in s)]
        r = engine.bfs(spec, conf, alpha, depth, seeds=seeds, seen=seen, keep_states=keep_states)
        summary.append({'universe': name, 'conf': U.conf_name(conf), 'alphabet': len(alpha), 'depth': depth,
                        'seeds': len(seeds), 'states': r.states, 'transitions': r.transitions,
                        'per_depth_new_states': r.per_depth, 'outcomes': dict(r.outcomes), 'dead': r.dead,
                        'state_space_closed': r.closed})
        r.merge_into(total)
        if keep_states:
            total.state_hists += r.state_hists
    return total, summary


def case_of(conf, hist, **extra):
    c = {'conf': conf, 'history': U.hist_to_json(hist),
         'calls': [U.op_concrete(conf, op) for op in hist]}
    c.update(extra)
    return c


def tier_seed(argv_tier):
    tier = argv_tier          # the command line decides; VERIF_TIER is informational
    try:
        seed = int(os.environ.get('VERIF_SEED', '0'))
    except ValueError:
        seed = 0
    return tier, seed


# ---------------------------------------------------------------------------------------------
# generic "state oracle on every reachable state" property runner

class StateSpec(engine.Spec):
    """on_state = fn(conf, hist, G, M) -> (list of (sub, sig, detail), counters, sets)"""

    def __init__(self, prop, fn):
        self.prop = prop
        self.fn = fn

    def on_state(self, conf, hist, G, M):
        trip, cnt, sets = self.fn(conf, hist, G, M)
        viols = [common.Violation(self.prop, sub, dict(sig, cls=conf['cls'], mode='rm' if conf['removal'] else 'acc'),
                                  case_of(conf, hist), det) for (sub, sig, det) in trip]
        return viols, cnt, sets


def run_state_property(prop, level, fn, tier, seed, classes=('DynGraph', 'DynDiGraph'), modes=(True,),
                       which=('U0', 'U1', 'U2', 'TWO', 'U3'), flavours=(0, 1, 2, 3), rule='', params=None,
                       assumptions=(), vacuity=None, sample_fn=None, opfilter=None):
    known = common.load_known()
    rep = common.Report(prop, tier, seed, level)
    p = dict(tier_params(tier))
    if params:
        p.update(params)
    spec = StateSpec(prop, fn)
    sums = {}
    for fl in flavours_for(tier, seed, flavours):
        for cls in classes:
            for removal in modes:
                conf = U.conf_make(cls, removal, fl, p['w'])
                total, summary = explore_universes(spec, conf, tier, which=which, params=params, opfilter=opfilter)
                rep.cov['per_universe'] += summary
                rep.cov['states'] += total.states
                rep.cov['transitions'] += total.transitions
                for k, v in total.counters.items():
                    sums[k] = sums.get(k, 0) + v
                for k, v in total.sets.items():
                    sums['distinct_' + k] = sums.get('distinct_' + k, 0) + len(v)
                rep.add_violations(total.violations, known)
    rep.cov['traces_validated_against_impl'] = rep.cov['transitions']
    rep.cov['evaluations'] = sums.get('evaluations', rep.cov['states'])
    rep.cov['distinct_nontrivial'] = sums.get('nontrivial', 0)
    rep.cov['counters'] = sums
    if vacuity:
        for name, least in vacuity.items():
            if sums.get(name, 0) < least:
                rep.broken.append('%s = %d < %d: the exploration did not exercise what the property is about'
                                  % (name, sums.get(name, 0), least))
    if sample_fn:
        for s in sample_fn(p):
            rep.sample(s)
    rep.assumptions = ['PYTHONHASHSEED=0', 'deterministic library; state key = structural walk of G.__dict__ + model',
                       "the state's own has_interaction matrix is taken as the presence relation"] + list(assumptions)
    return rep.finish(known, rule)


def replay_state_property(prop, fn, case):
    conf = case['conf']
    hist = U.hist_from_json(case['history'])
    G, M, outs = engine.execute(conf, hist)
    trip, _, _ = fn(conf, hist, G, M)
    return [common.Violation(prop, sub, dict(sig, cls=conf['cls'], mode='rm' if conf['removal'] else 'acc'),
                             case_of(conf, hist), det) for (sub, sig, det) in trip]


def default_samples(p):
    out = []
    for cls in ('DynGraph', 'DynDiGraph'):
        conf = U.conf_make(cls, True, 0, p['w'])
        for h in U.seeds_U3(conf)[:2]:
            G, M, outs = engine.execute(conf, h)
            out.append({'conf': U.conf_name(conf), 'calls': [U.op_concrete(conf, op) for op in h],
                        'outcomes': [o[0] for o in outs], 'stream': repr(list(G.stream_interactions())),
                        'snapshot_ids': list(G.temporal_snapshots_ids())})
    return out
