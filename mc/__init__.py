"""Bounded exhaustive exploration of the real dynetx code (see /verif/DESIGN.md)."""
