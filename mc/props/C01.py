"""C01 — presence is exactly the union of the spans that were added (DESIGN.md §5/C01)."""
from .. import universes as U
from .. import engine, common, observe
from ..common import Violation
from . import base

PROP = 'C01'
LEVEL = 'model_checking'
CLASSES = ('DynGraph', 'DynDiGraph')

REQUIRED_CLASSES = [   # vacuity: each relative position of a new span must have been exercised
    'first/pt', 'first/iv', 'gap/pt', 'gap/iv', 'adjacent/pt', 'adjacent/iv', 'duplicate/pt', 'duplicate/iv',
    'contained/pt', 'contained/iv', 'same-start-longer/iv', 'overlap/iv']


def check_state(conf, hist, G, M):
    viols = []
    nodes = observe.probe_nodes(G, conf)
    times = observe.probe_times(G, conf)
    directed = conf['cls'] == 'DynDiGraph'
    last = M.classes[-1] if M.classes else None
    for u in nodes:
        for v in nodes:
            ever_g = bool(G.has_interaction(u, v))
            ever_m = M.ever(u, v)
            if ever_g != ever_m:
                viols.append(Violation(PROP, 'ever', {'cls': conf['cls'], 'kind': 'ever-' + ('extra' if ever_g else 'missing'),
                                                      'last_add': last},
                                       base.case_of(conf, hist), {'pair': repr((u, v)), 'has_interaction(u,v)': ever_g,
                                                                  'pair ever added': ever_m}))
            for t in times:
                pg = bool(G.has_interaction(u, v, t))
                pm = M.present(u, v, t)
                if pg != pm:
                    viols.append(Violation(PROP, 'presence',
                                           {'cls': conf['cls'], 'kind': 'presence-' + ('extra' if pg else 'missing'),
                                            'last_add': last},
                                           base.case_of(conf, hist),
                                           {'pair': repr((u, v)), 't': t, 'has_interaction': pg, 'union of spans': pm}))
                    break
            if not directed and G.has_interaction(v, u) != ever_g:
                viols.append(Violation(PROP, 'symmetry', {'cls': conf['cls'], 'kind': 'asymmetric'},
                                       base.case_of(conf, hist), {'pair': repr((u, v))}))
    nontrivial = 1 if any(len(observe.runs_of(s)) >= 1 for s in M.pres.values()) and len(hist) >= 2 else 0
    cnt = {'nontrivial_states': nontrivial,
           'states_multi_run': 1 if any(len(observe.runs_of(s)) >= 2 for s in M.pres.values()) else 0,
           'probes': len(nodes) * len(nodes) * (len(times) + 1)}
    sets = {'presence_relations': [observe.digest(sorted((repr(k), sorted(v)) for k, v in M.pres.items()))]}
    return viols, cnt, sets


def check_transition(conf, hist, op, G, M, out, exp):
    viols = []
    if out != exp:
        kind = 'unexpected-exception' if out not in engine.LEGIT else 'wrong-verdict'
        viols.append(Violation(PROP, 'outcome', {'cls': conf['cls'], 'kind': kind, 'expected': exp, 'observed': out,
                                                 'op': op[0] if op[0] != 'bulk' else 'bulk-' + op[1]},
                               base.case_of(conf, hist + (op,)),
                               {'call': U.op_concrete(conf, op), 'expected': exp, 'observed': out}))
    return viols, {}


class Spec(engine.Spec):
    prop = PROP
    pure_queries = True

    def on_transition(self, conf, hist, op, G, M, out, exp):
        return check_transition(conf, hist, op, G, M, out, exp)

    def on_state(self, conf, hist, G, M):
        return check_state(conf, hist, G, M)


def run(tier, seed):
    known = common.load_known()
    rep = common.Report(PROP, tier, seed, LEVEL)
    p = base.tier_params(tier)
    spec = Spec()
    classes_seen = {}
    for fl, reduced in base.flavours_for(tier, seed, (0, 1, 2, 3, 5, 6)):
        for cls in CLASSES:
            conf = U.conf_make(cls, True, fl, base.window_for(tier, fl, p['w']))
            total, summary = (base.explore_universes(spec, conf, tier, which=base.REDUCED['which'], params=base.REDUCED['params'])
                              if reduced else base.explore_universes(spec, conf, tier))
            rep.cov['per_universe'] += summary
            rep.cov['states'] += total.states
            rep.cov['transitions'] += total.transitions
            rep.cov['evaluations'] += total.counters['probes']
            rep.cov['distinct_nontrivial'] += total.counters['nontrivial_states']
            rep.cov.setdefault('states_multi_run', 0)
            rep.cov['states_multi_run'] += total.counters['states_multi_run']
            rep.cov.setdefault('distinct_presence_relations', 0)
            rep.cov['distinct_presence_relations'] += len(total.sets['presence_relations'])
            for k, v in total.classes.items():
                kk = '/'.join(k.split('/')[:2]); classes_seen[kk] = classes_seen.get(kk, 0) + v
            rep.cov.setdefault('add_classes', {})
            for k, v in total.classes.items():
                rep.cov['add_classes'][k] = rep.cov['add_classes'].get(k, 0) + v
            rep.add_violations(total.violations, known)
    rep.cov['traces_validated_against_impl'] = rep.cov['transitions']
    for rc in REQUIRED_CLASSES:
        if not classes_seen.get(rc):
            rep.broken.append('no accepted add of class %s was explored' % rc)
    conf0 = U.conf_make('DynGraph', True, 0, p['w'])
    for h in U.seeds_U3(conf0)[:3]:
        G, M, outs = engine.execute(conf0, h)
        rep.sample({'conf': U.conf_name(conf0), 'calls': [U.op_concrete(conf0, op) for op in h],
                    'outcomes': [o[0] for o in outs],
                    'presence': {repr(k): sorted(v) for k, v in M.pres.items()}})
    rep.assumptions = ['PYTHONHASHSEED=0', 'deterministic library (no clocks/IO in the graph classes)',
                       'state key = structural walk of G.__dict__ + model; equal keys => equal futures']
    return rep.finish(known, base.UNIVERSE_NOTE[4:] + ' || ' + 'BFS over add_* call histories (U1 one pair deep, U2 all pairs/bulk helpers shallow, TWO two '
                             'pairs sharing instants, U3 seeded prefixes); a state is distinct by structural key; '
                             'non-trivial = at least two calls and some interaction present; every state probed with '
                             'has_interaction on all ordered node pairs (incl. an unknown node) x all probe instants')


def replay(case):
    conf = case['conf']
    hist = U.hist_from_json(case['history'])
    G, M, outs = engine.execute(conf, hist)
    viols = []
    if hist:
        out, exp, _ = outs[-1]
        viols += check_transition(conf, hist[:-1], hist[-1], G, M, out, exp)[0]
    if all(o[0] in engine.LEGIT for o in outs):
        viols += check_state(conf, hist, G, M)[0]
    return viols
