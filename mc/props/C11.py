"""C11 — JSON node-link data round-trips class, nodes, attributes and presence."""
import collections
import copy
import json
import dynetx as dn
from dynetx.readwrite.json_graph import node_link_data, node_link_graph
from .. import universes as U
from .. import oracles, observe
from . import base

PROP = 'C11'
LEVEL = 'model_checking'


def check_json(conf, G, nodes, times, P, PP, id_key):
    res = []
    directed = G.is_directed()

    def bad(kind, detail, **feat):
        sig = {'kind': kind, 'id_key': id_key}
        sig.update(feat)
        res.append(('json', sig, detail))

    attrs = dict(id=id_key, source='source', target='target')
    before = observe.snapshot(G, conf, times)
    try:
        data = node_link_data(G, attrs=attrs) if id_key != 'id' else node_link_data(G)
    except Exception as ex:
        bad('node_link_data-raises', {'exc': repr(ex)[:200]}, exc=type(ex).__name__)
        return res, 0
    try:
        text = json.dumps(data)
    except Exception as ex:
        bad('not-json-serialisable', {'exc': repr(ex)[:200]})
        return res, 1
    if data.get('directed') is not directed:
        bad('directed-flag', {'got': repr(data.get('directed'))})
    want_nodes = sorted((repr(n), repr(sorted(d.items(), key=repr))) for n, d in G.nodes(data=True))
    try:
        got_nodes = sorted((repr(d[id_key]), repr(sorted(((k, v) for k, v in d.items() if k != id_key), key=repr))) for d in data['nodes'])
    except Exception:
        got_nodes = None
    if got_nodes != want_nodes:
        bad('node-list', {'got': repr(data.get('nodes'))[:300], 'expected': repr(want_nodes)[:300]},
            isolated_missing=got_nodes is not None and len(got_nodes) < len(want_nodes))
    got = collections.Counter()
    okshape = True
    for l in data.get('links', []):
        if set(l) != {'source', 'target', 'time'}:
            bad('link-shape', {'link': repr(l)})
            okshape = False
            break
        got[(l['source'], l['target'], l['time'])] += 1
    if okshape:
        want = collections.Counter()
        for k, ts in PP.items():
            for t in ts:
                want[(k[0], k[1], t)] += 1
        if not directed:
            norm = collections.Counter()
            for (a, b, t), c in got.items():
                norm[(a, b, t) if (a, b, t) in want else (b, a, t)] += c
            got = norm
        if got != want:
            missing = sorted((want - got).elements(), key=repr)
            extra = sorted((got - want).elements(), key=repr)
            feat = {'missing': bool(missing), 'extra': bool(extra)}
            if missing and not extra:
                feat['missing_last_instant_of_run'] = all((m[0], m[1], m[2] + 1) not in want for m in missing)
            bad('links-differ-from-presence', {'missing': repr(missing[:5]), 'extra': repr(extra[:5])}, **feat)
    if observe.snapshot(G, conf, times) != before:
        bad('source-changed', {})
    n_eval = 1
    # rebuild through a real JSON round trip; 'directed' argument only matters when the key is absent
    for has_key in (True, False):
        for arg in (False, True):
            d2 = json.loads(text)
            if not has_key:
                del d2['directed']
            n_eval += 1
            want_dir = directed if has_key else arg
            try:
                H = node_link_graph(d2, directed=arg, attrs=attrs) if id_key != 'id' else node_link_graph(d2, directed=arg)
            except ValueError:
                if want_dir != directed:
                    # reading one class's data as the other class is not a round trip: the link order of the two
                    # directions need not be chronological for the merged pair (outside the statement) -- only the
                    # class decision is checked when the call returns
                    continue
                bad('node_link_graph-raises', {'exc': 'ValueError', 'directed_key': has_key, 'directed_arg': arg}, exc='ValueError')
                continue
            except Exception as ex:
                bad('node_link_graph-raises', {'exc': repr(ex)[:200], 'directed_key': has_key, 'directed_arg': arg}, exc=type(ex).__name__)
                continue
            if H.is_directed() != want_dir or type(H).__name__ != ('DynDiGraph' if want_dir else 'DynGraph'):
                bad('rebuilt-class', {'got': type(H).__name__, 'directed_key': has_key, 'directed_arg': arg}, key_present=has_key)
                continue
            hn = sorted((repr(n), repr(sorted(d.items(), key=repr))) for n, d in H.nodes(data=True))
            if hn != want_nodes:
                bad('rebuilt-nodes', {'got': repr(hn)[:300], 'expected': repr(want_nodes)[:300]})
            if H.graph != G.graph:
                bad('rebuilt-graph-attributes', {'got': repr(H.graph), 'expected': repr(G.graph)})
            hnodes = list(nodes) + [n for n in H.nodes() if n not in nodes]
            ht = sorted(set(times) | set(observe.probe_times(H, conf)))
            PH = observe.presence(H, hnodes, ht)
            if want_dir != directed:
                continue        # not a round trip (see above): class decision only
            wantP = P
            if PH != wantP:
                bad('rebuilt-presence', {'missing': repr(sorted(wantP - PH, key=repr)[:5]), 'extra': repr(sorted(PH - wantP, key=repr)[:5]),
                                         'directed_key': has_key, 'directed_arg': arg}, missing=bool(wantP - PH), extra=bool(PH - wantP))
            for sub, sig, det in oracles.canonical(H, conf, what='node_link_graph'):
                bad('rebuilt-' + sig['kind'], det)
    return res, n_eval


def state_fn(conf, hist, G, M):
    G.graph['meta'] = {'k': [1, 2], 'name': 'g'}
    G.graph['data'] = 'survey'              # attribute names that are also constructor parameters
    G.graph['edge_removal'] = 'no'
    nodes, times, P, PP = oracles.presence_ctx(G, conf)
    trip = []
    evals = 0
    for id_key in ('id', 'name', 'id'):        # the default form once more after the custom one (no carried-over defaults)
        r, n = check_json(conf, G, nodes, times, P, PP, id_key)
        trip += r
        evals += n
    seen = set()
    out = []
    for sub, sig, det in trip:
        k = repr(sorted(sig.items()))
        if k not in seen:
            seen.add(k)
            out.append((sub, sig, det))
    directed = conf['cls'] == 'DynDiGraph'
    known = list(G.nodes())
    iso = any(not any(n in k for k in PP) for n in known)
    cnt = {'evaluations': evals, 'nontrivial': 1 if len(PP) >= 2 or iso else 0,
           'states_reciprocal': 1 if directed and any((k[1], k[0]) in PP and k[0] != k[1] for k in PP) else 0,
           'states_isolated_node': 1 if iso else 0, 'states_with_attrs': 1 if any(d for _, d in G.nodes(data=True)) else 0,
           'states_selfloop': 1 if any(k[0] == k[1] for k in PP) else 0}
    return out, cnt, {}


def run(tier, seed):
    params = {'u1_depth': 2, 'u2_depth': 2, 'two_depth': 2, 'u3_depth': 1} if tier == 'quick' else {'u1_depth': 4, 'u2_depth': 2, 'two_depth': 3, 'u3_depth': 2, 'uc_depth': 5}
    return base.run_state_property(
        PROP, LEVEL, state_fn, tier, seed, thorough_full=(0, 1), opfilter=(lambda op: op[0] != 'nodes2'), which=base.NO_LONG, reduced=base.REDUCED_LIGHT, params=params, flavours=(0, 1, 2),
        vacuity={'states_reciprocal': 10, 'states_isolated_node': 10, 'states_with_attrs': 10, 'states_selfloop': 10},
        sample_fn=base.default_samples,
        assumptions=['JSON-native ids (int, str) only; graph attribute G.graph["meta"] is set by the harness on the fresh replayed object'],
        rule='BFS over add_*/add_node histories (isolated nodes, nested attribute values), removal enabled, both classes, int and str ids; '
             'every distinct state x attrs[id] in {id, name}: node_link_data is json.dumps-able, records directedness, lists every node with '
             'its attributes, has exactly one {source,target,time} per (interaction, instant) — oriented when directed; '
             'node_link_graph(json.loads(json.dumps(data))) with the directed key present/absent x directed argument False/True rebuilds '
             'class (argument only when the key is absent), nodes, node and graph attributes and the has_interaction matrix; evaluations = '
             'serialisations + rebuilds; non-trivial = >= 2 pairs or an isolated node')


def replay(case):
    return base.replay_state_property(PROP, state_fn, case)
