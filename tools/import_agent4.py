#!/usr/bin/env python3
"""tools/import_agent2.py Cxx N 'what' 'needs' [checks]  — wave 2: copy into seeded/Cxx-w4mN"""
import json, os, shutil, sys
pid, n, what, needs = sys.argv[1:5]
checks = sys.argv[5].split(',') if len(sys.argv) > 5 else [pid]
src = '/tmp/wt/%s' % pid
dst = os.path.join(os.path.dirname(os.path.dirname(os.path.abspath(__file__))), 'seeded', '%s-w4m%s' % (pid, n))
os.makedirs(dst, exist_ok=True)
shutil.copy(os.path.join(src, 'mutation%s.diff' % n), os.path.join(dst, 'patch.diff'))
shutil.copy(os.path.join(src, 'demo%s.py' % n), os.path.join(dst, 'demo.py'))
json.dump({'id': '%s-w4m%s' % (pid, n), 'origin': 'independent sub-agent, fourth round: given the property text, a scratch worktree and the instruction to use two cooperating code sites, each harmless alone',
           'property': pid, 'what': what, 'needs': needs, 'checks_expected': checks}, open(os.path.join(dst, 'meta.json'), 'w'), indent=1)
print(dst)
