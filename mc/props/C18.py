"""C18 — readers skip noise rows; timestamp compaction is an order-preserving bijection."""
import collections
import itertools
import os
import dynetx as dn
from dynetx.readwrite import edgelist
from .. import universes as U
from .. import observe, graphs, common, iocommon
from ..common import Violation

PROP = 'C18'
LEVEL = 'exploration'
CONF = {'DynGraph': U.conf_make('DynGraph', True, 0, 5), 'DynDiGraph': U.conf_make('DynDiGraph', True, 0, 5)}

# row grammar: (kind, fields or None, raw template).  {d} = delimiter.  Valid rows carry their clean form.
SNAP_ROWS = [
    ('valid3', ['0', '1', '1'], None), ('valid3', ['1', '2', '1'], None), ('valid3', ['0', '1', '2'], None),
    ('valid4', ['0', '1', '0', '2'], None), ('valid4', ['1', '2', '2', '4'], None),
    ('comment', None, '# a comment'), ('comment', None, '#'), ('empty', None, ''), ('blank', None, '   '), ('blank', None, '\t'),
    ('short', None, '0'), ('short', None, '0{d}1'),
    ('trailing-comment', ['0', '1', '3'], '0{d}1{d}3 # seen'), ('trailing-comment', ['1', '2', '3'], '1{d}2{d}3#x'),
    ('trailing-comment', ['0', '2', '2'], '0{d}2{d}2{w}# after the delimiter'),
    ('padded', ['0', '2', '3'], '  0{d}2{d}3  '), ('extra-columns', ['0', '2', '1', '3'], '0{d}2{d}1{d}3{d}9{d}9'),
]
INT_ROWS = [
    ('plus', ['0', '1', '+', '1'], None), ('plus', ['1', '2', '+', '1'], None), ('plus', ['0', '1', '+', '3'], None),
    ('minus', ['0', '1', '-', '3'], None), ('minus', ['1', '2', '-', '4'], None),
    ('comment', None, '# a comment'), ('empty', None, ''), ('blank', None, '  \t'),
    ('short', None, '0{d}1{d}+'), ('short', None, '0{d}1'), ('extra-columns', None, '0{d}1{d}+{d}2{d}9'),
    ('trailing-comment', ['0', '2', '+', '2'], '0{d}2{d}+{d}2 # note'), ('trailing-comment', ['0', '2', '+', '3'], '0{d}2{d}+{d}3{w}# after the delimiter'), ('padded', ['1', '2', '+', '4'], ' 1{d}2{d}+{d}4 '),
    ('comment', None, '#0{d}1{d}+{d}0'),
]
DELIMS = [None, ' ', ',', '\t']


def render(row, d):
    kind, fields, raw = row
    dd = ' ' if d is None else d
    if raw is not None:
        # {w}: the delimiter itself when it is whitespace (a comment set off by the delimiter), else a blank
        return raw.replace('{d}', dd).replace('{w}', dd if dd in (' ', '\t') else ' ')
    return dd.join(fields)


def clean(row, d):
    kind, fields, raw = row
    if fields is None:
        return None
    dd = ' ' if d is None else d
    return dd.join(fields)


def parse(reader, lines, directed, d):
    fn = edgelist.parse_snapshots if reader == 'snapshots' else edgelist.parse_interactions
    return fn(lines, directed=directed, delimiter=d, nodetype=int, timestamptype=int)


def summary(G, cls):
    conf = CONF[cls]
    nodes = [0, 1, 2, 3, 9]
    times = list(range(-1, 8))
    return observe.light(G, conf, nodes, times)


def decode(i, n, k):
    for L in range(0, k + 1):
        if i < n ** L:
            out = []
            for _ in range(L):
                i, r = divmod(i, n)
                out.append(r)
            return list(reversed(out))
        i -= n ** L
    raise IndexError


def eval_seq(i, data):
    reader, k = data['reader'], data['k']
    rows = SNAP_ROWS if reader == 'snapshots' else INT_ROWS
    idxs = decode(i, len(rows), k)
    seq = [rows[j] for j in idxs]
    cnt = collections.Counter()
    viols = []
    noisy_kinds = sorted(set(r[0] for r in seq if r[0] not in ('valid3', 'valid4', 'plus', 'minus')))
    if noisy_kinds and any(r[1] is not None for r in seq):
        cnt['nontrivial'] += 1
    for d in DELIMS:
        for nl in (True, False):
            for directed in (False, True):
                cls = 'DynDiGraph' if directed else 'DynGraph'
                noisy = [render(r, d) + ('\n' if nl else '') for r in seq]
                ref = [clean(r, d) for r in seq if clean(r, d) is not None]
                cnt['parses'] += 1
                try:
                    R = parse(reader, ref, directed, d)
                    ref_exc = None
                except Exception as ex:
                    R, ref_exc = None, type(ex).__name__
                try:
                    N = parse(reader, noisy, directed, d)
                    exc = None
                except Exception as ex:
                    N, exc = None, type(ex).__name__
                if ref_exc is not None:
                    if ref_exc not in ('ValueError', 'KeyError') or exc != ref_exc:
                        if exc != ref_exc:
                            viols.append(Violation(PROP, 'noise', {'kind': 'noise-changes-outcome', 'reader': reader, 'noise': noisy_kinds},
                                                   {'index': i, 'reader': reader, 'k': k},
                                                   {'lines': noisy, 'clean rows': ref, 'clean outcome': ref_exc, 'noisy outcome': exc}))
                    continue
                if exc is not None:
                    viols.append(Violation(PROP, 'noise', {'kind': 'noise-row-raises', 'exc': exc, 'reader': reader, 'noise': noisy_kinds,
                                                           'delimiter': repr(d)},
                                           {'index': i, 'reader': reader, 'k': k}, {'lines': noisy, 'delimiter': repr(d), 'raised': exc}))
                    continue
                a, b = summary(N, cls), summary(R, cls)
                if a != b:
                    viols.append(Violation(PROP, 'noise', {'kind': 'noise-changes-graph', 'reader': reader, 'noise': noisy_kinds,
                                                           'delimiter': repr(d), 'differs': observe.snapshot_diff(a, b)},
                                           {'index': i, 'reader': reader, 'k': k},
                                           {'lines': noisy, 'clean rows': ref, 'delimiter': repr(d), 'differs in': observe.snapshot_diff(a, b)}))
    return viols[:3], cnt


def conversions(rep, known):
    """a node or timestamp field that cannot be converted raises TypeError"""
    n = 0
    viols = []
    cases = [('snapshots', ['x 1 2'], 'node'), ('snapshots', ['0 y 2'], 'node'), ('snapshots', ['0 1 z'], 'timestamp'), ('snapshots', ['0 1 2 w'], 'timestamp'),
             ('snapshots', ['0 1 1', 'x 1 2'], 'node'), ('interactions', ['x 1 + 2'], 'node'), ('interactions', ['0 1 + z'], 'timestamp'),
             ('interactions', ['0 1 + 1', '0 1 - q'], 'timestamp'), ('snapshots', ['0 1 2.5'], 'timestamp'), ('snapshots', ['0.5 1 2'], 'node')]
    import decimal
    table = {'0': 0, '1': 1, '2': 2}
    custom = [('lookup-table', table.__getitem__), ('decimal', decimal.Decimal)]
    for cname, conv in custom:
        for reader, lines, what in (('snapshots', ['0 1 2', '0 milan 2'], 'node'), ('interactions', ['0 1 + 1', 'pisa 1 + 2'], 'node'),
                                    ('snapshots', ['0 1 x'], 'timestamp'), ('interactions', ['0 1 + x'], 'timestamp')):
            fn = edgelist.parse_snapshots if reader == 'snapshots' else edgelist.parse_interactions
            kw = {'nodetype': conv, 'timestamptype': int} if what == 'node' else {'nodetype': int, 'timestamptype': conv}
            n += 1
            try:
                fn(lines, **kw)
                viols.append(Violation(PROP, 'conversion', {'kind': 'unconvertible-field-accepted', 'field': what, 'reader': reader, 'converter': cname},
                                       {'lines': lines, 'reader': reader}, {'lines': lines}))
            except TypeError:
                pass
            except Exception as ex:
                viols.append(Violation(PROP, 'conversion', {'kind': 'wrong-exception', 'field': what, 'reader': reader, 'exc': type(ex).__name__,
                                                            'converter': cname}, {'lines': lines, 'reader': reader}, {'lines': lines, 'raised': repr(ex)[:200]}))
    for reader, lines, what in cases:
        for directed in (False, True):
            n += 1
            try:
                parse(reader, lines, directed, None)
                viols.append(Violation(PROP, 'conversion', {'kind': 'unconvertible-field-accepted', 'field': what, 'reader': reader},
                                       {'lines': lines, 'reader': reader}, {'lines': lines}))
            except TypeError:
                pass
            except Exception as ex:
                viols.append(Violation(PROP, 'conversion', {'kind': 'wrong-exception', 'field': what, 'reader': reader, 'exc': type(ex).__name__},
                                       {'lines': lines, 'reader': reader}, {'lines': lines, 'raised': repr(ex)[:200]}))
    rep.add_violations(viols, known)
    return n


def eval_compact(i, data):
    """compact_timeslot on the subset with bitmask i of an 8-instant window, every rotation, with duplicates"""
    W = data['W']
    base = data['base']
    sub = [base + j * data['step'] for j in range(W) if i >> j & 1]
    cnt = collections.Counter()
    viols = []
    for rot in range(max(1, len(sub))):
        for dup in (False,):      # the statement quantifies over *sets* of timestamps: no duplicates
            lst = sub[rot:] + sub[:rot]
            cnt['calls'] += 1
            try:
                conv = dn.utils.compact_timeslot(lst)
            except Exception as ex:
                viols.append(Violation(PROP, 'compact', {'kind': 'raises', 'exc': type(ex).__name__}, {'mask': i, 'W': W, 'base': base, 'step': data['step']}, {'input': lst}))
                continue
            srt = sorted(set(lst))
            want = {v: r for r, v in enumerate(srt)}
            if conv != want:
                viols.append(Violation(PROP, 'compact', {'kind': 'not-the-rank-bijection', 'with_duplicates': dup and len(set(lst)) != len(lst), 'rotated': rot > 0},
                                       {'mask': i, 'W': W, 'base': base, 'step': data['step']}, {'input': lst, 'got': repr(conv), 'expected': repr(want)}))
    if len(sub) >= 2:
        cnt['nontrivial'] += 1
    return viols[:2], cnt


def key_files():
    """every clean file of <= 3 rows: 3-column, 4-column and interaction rows with sparse timestamps"""
    snap = [(0, 1, 10, None), (1, 2, 10, None), (0, 1, 13, None), (0, 1, 10, 13), (1, 2, 13, 20), (0, 2, 20, None), (0, 1, 13, 21)]
    inter = [(0, 1, '+', 10), (1, 2, '+', 10), (0, 1, '+', 13), (0, 1, '-', 20), (1, 2, '-', 13), (0, 2, '+', 20)]
    out = []
    for L in (1, 2, 3):
        for seq in itertools.product(snap, repeat=L):
            out.append(('snapshots', seq))
        for seq in itertools.product(inter, repeat=L):
            out.append(('interactions', seq))
    return out


KEYFILES = None


def eval_keyfile(i, data):
    global KEYFILES
    if KEYFILES is None:
        KEYFILES = key_files()
    reader, seq = KEYFILES[i]
    cnt = collections.Counter()
    viols = []
    if reader == 'snapshots':
        stamps = sorted(set([r[2] for r in seq] + [r[3] for r in seq if r[3] is not None]))
        rank = {t: k for k, t in enumerate(stamps)}
        lines = [' '.join(map(str, r[:3] if r[3] is None else r)) for r in seq]
        ranked = [' '.join(map(str, (r[0], r[1], rank[r[2]]) if r[3] is None else (r[0], r[1], rank[r[2]], rank[r[3]]))) for r in seq]
        rd = dn.read_snapshots
    else:
        stamps = sorted(set(r[3] for r in seq))
        rank = {t: k for k, t in enumerate(stamps)}
        lines = [' '.join(map(str, r)) for r in seq]
        ranked = [' '.join(map(str, (r[0], r[1], r[2], rank[r[3]]))) for r in seq]
        rd = dn.read_interactions
    for directed in (False, True):
        cls = 'DynDiGraph' if directed else 'DynGraph'
        try:
            R = parse(reader, ranked, directed, None)
        except Exception:
            continue                      # the ranked rows themselves are not a legal input (non-chronological)
        if reader == 'interactions':
            try:
                parse(reader, lines, directed, None)
            except Exception:
                continue
        cnt['files'] += 1
        if any(len(r) > 3 and r[3] is not None for r in seq) and reader == 'snapshots':
            cnt['files_with_4_columns'] += 1
        path = iocommon.fname('k%d' % i, '.txt')
        with open(path, 'w') as f:
            f.write('\n'.join(lines) + '\n')
        try:
            H = rd(path, directed=directed, nodetype=int, timestamptype=int, keys=True)
        except Exception as ex:
            viols.append(Violation(PROP, 'keys', {'kind': 'keys-read-raises', 'exc': type(ex).__name__, 'reader': reader,
                                                  'four_columns': reader == 'snapshots' and any(r[3] is not None for r in seq)},
                                   {'keyfile': i}, {'rows': lines, 'raised': repr(ex)[:200]}))
            continue
        finally:
            try:
                os.unlink(path)
            except OSError:
                pass
        a, b = summary(H, cls), summary(R, cls)
        if a != b:
            viols.append(Violation(PROP, 'keys', {'kind': 'keys-graph-differs-from-ranked-rows', 'reader': reader,
                                                  'four_columns': reader == 'snapshots' and any(r[3] is not None for r in seq)},
                                   {'keyfile': i}, {'rows': lines, 'ranked rows': ranked, 'differs in': observe.snapshot_diff(a, b)}))
    return viols[:2], cnt


def run(tier, seed):
    k = 3 if tier == 'quick' else 4
    known = common.load_known()
    rep = common.Report(PROP, tier, seed, LEVEL)
    iocommon.scratch()
    tot = collections.Counter()
    for reader, rows in (('snapshots', SNAP_ROWS), ('interactions', INT_ROWS)):
        n = sum(len(rows) ** L for L in range(0, k + 1))
        t, viols = graphs.run_indexed(eval_seq, n, {'reader': reader, 'k': k})
        rep.cov['per_universe'].append({'universe': 'line sequences <= %d over %d %s row symbols' % (k, len(rows), reader), 'inputs': t['inputs'],
                                        'parses': t['parses']})
        if t['inputs'] != n:
            rep.broken.append('%s: enumerated %d of %d' % (reader, t['inputs'], n))
        tot.update(t)
        rep.add_violations([_v(j) for j in viols], known)
    ncv = conversions(rep, known)
    W = 8
    for base_, step in ((0, 1), (100, 3), (-5, 2), (2 ** 60, 1)):
        t, viols = graphs.run_indexed(eval_compact, 2 ** W, {'W': W, 'base': base_, 'step': step})
        tot['compact_calls'] += t['calls']
        tot['compact_nontrivial'] += t['nontrivial']
        rep.add_violations([_v(j) for j in viols], known)
    kf = key_files()
    t, viols = graphs.run_indexed(eval_keyfile, len(kf))
    tot['key_files'] += t['files']
    tot['key_files_4col'] += t['files_with_4_columns']
    rep.add_violations([_v(j) for j in viols], known)
    rep.cov.update({'evaluations': tot['parses'] + ncv + tot['compact_calls'] + tot['key_files'],
                    'distinct_nontrivial': tot['nontrivial'] + tot['compact_nontrivial'] + tot['key_files'],
                    'line_sequences': tot['inputs'], 'parses': tot['parses'], 'conversion_cases': ncv,
                    'compact_timeslot_calls': tot['compact_calls'], 'keys_true_files': tot['key_files'],
                    'keys_true_files_with_4_columns': tot['key_files_4col'], 'max_sequence_length': k})
    for need, least in (('key_files', 100), ('key_files_4col', 50), ('nontrivial', 100)):
        if tot[need] < least:
            rep.broken.append('%s = %d' % (need, tot[need]))
    for i in (5, 300, 2000):
        rep.sample({'reader': 'snapshots', 'lines': [render(SNAP_ROWS[j], None) for j in decode(i, len(SNAP_ROWS), k)]})
    rep.sample({'reader': 'interactions', 'lines': [render(INT_ROWS[j], ',') for j in decode(777, len(INT_ROWS), k)]})
    rep.assumptions = ['keys=True is exercised on clean files only (the statement defines compaction on the same rows)',
                       'rows whose clean parse is itself rejected (non-chronological per pair) must be rejected identically with noise']
    return rep.finish(known, 'all sequences of <= %d lines over the row grammar (valid 3-/4-column rows, comment-only, empty, blank, 1- and '
                             '2-field rows, trailing comments, padded rows, extra columns; for the interaction reader + and - rows, 3- and '
                             '5-field rows) x delimiter in {None, " ", ",", TAB} x with/without newline terminators x directed/undirected: '
                             'graph(noisy lines) observably == graph(valid rows alone); unconvertible fields raise TypeError; '
                             'compact_timeslot on every subset of three 8-instant windows in every rotation == rank '
                             'bijection; read_*(keys=True) on every clean file of <= 3 rows == graph of the ranked rows; distinct: every '
                             'sequence/subset/file is enumerated once; non-trivial = sequence mixing noise and valid rows' % k)


def _v(j):
    return Violation(j['property'] if j['property'] != '?' else PROP, j['sub'], {a: b for a, b in j['sig'].items() if a != 'sub'}, j['case'], j['detail'])


def replay(case):
    if 'keyfile' in case:
        return eval_keyfile(case['keyfile'], None)[0]
    if 'mask' in case:
        return eval_compact(case['mask'], case)[0]
    if 'index' in case:
        return eval_seq(case['index'], case)[0]
    rep = common.Report(PROP, 'quick', 0, LEVEL)
    conversions(rep, [])
    return [v for v, c in rep.vclasses.values()]
