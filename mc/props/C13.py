"""C13 — no time-respecting path is missed (loop-free universes; independent brute force)."""
import collections
from .. import graphs, pathsoracle as po
from ..universes import observe_bundle
from ..common import Violation
from . import pathbase

PROP = 'C13'
LEVEL = 'model_checking'


class _Chooser:
    """stands in for numpy inside dynetx.algorithms.paths: random.choice answers are decided here"""

    def __init__(self, real_np):
        self._np = real_np
        self.answer = None
        self.asked = None
        self.random = self

    def choice(self, n, size=None, replace=True):
        self.asked = (n, size)
        idx = list(self.answer) if self.answer is not None else list(range(size))
        return self._np.array(idx, dtype=int)

    def __getattr__(self, name):
        return getattr(self._np, name)


def _norm(r):
    if hasattr(r, 'items'):
        return {k: frozenset(map(tuple, v)) for k, v in r.items() if len(v)}
    return {}


def _flat(r):
    out = set()
    if hasattr(r, 'items'):
        for k, v in r.items():
            out.update(map(tuple, v))
    return out


def eval_graph(c, sub):
    import dynetx.algorithms as al
    import dynetx.algorithms.paths as pmod
    cnt = collections.Counter()
    viols = []
    nodes, T, pairs, atoms = graphs.universe(c)
    directed = c['cls'] == 'DynDiGraph'
    G = graphs.build(c, sub)
    P = graphs.presence_of(c, sub)
    ids = sorted(set(t for (_, _, t) in P))
    gnodes = list(G.nodes())
    case = lambda q: {'gconf': c, 'atoms': list(sub), 'query': q}
    full = {}
    for u in gnodes:
        for v in [None] + nodes:
            for (s, e) in po.all_windows(T, ids):
                cnt['queries'] += 1
                present = True if s is None else any((a == u or b == u) and t == s for (a, b, t) in P)
                want = po.brute_paths(P, directed, ids, u, v, s, e) if present else set()
                try:
                    # alternate between the positional and the keyword call form
                    r = al.time_respecting_paths(G, u, v, s, e) if (cnt['queries'] % 2) else al.time_respecting_paths(G, u, v=v, end=e, start=s, sample=1)
                except Exception as ex:
                    viols.append(Violation(PROP, 'call', {'kind': 'raises', 'exc': type(ex).__name__, 'cls': c['cls']}, case([repr(u), repr(v), s, e]),
                                           {'graph': graphs.describe(c, sub), 'call': 'time_respecting_paths(G, %r, %r, %r, %r)' % (u, v, s, e)}))
                    continue
                got = _flat(r)
                if v is None:
                    full[(u, s, e)] = r
                if want:
                    cnt['queries_with_paths'] += 1
                if len(want) >= 3:
                    cnt['queries_with_3plus_paths'] += 1
                if got != want:
                    missing = sorted(want - got)
                    extra = sorted(got - want)
                    feat = {'kind': 'missed-paths' if missing else 'extra-paths', 'cls': c['cls'], 'u_present_at_start': present,
                            'target_given': v is not None}
                    if missing:
                        feat['missed_lengths'] = sorted(set(len(p) for p in missing))
                    viols.append(Violation(PROP, 'completeness', feat, case([repr(u), repr(v), s, e]),
                                           {'graph': graphs.describe(c, sub), 'call': 'time_respecting_paths(G, %r, %r, start=%r, end=%r)' % (u, v, s, e),
                                            'missing': repr(missing[:4]), 'extra': repr(extra[:4]), 'brute force found': len(want), 'returned': len(got)}))
    # all_time_respecting_paths == the per-source results
    wins = [(None, None)] + [(s, e) for (s, e) in po.all_windows(T, ids) if s is not None and e is not None]
    for m in [None] + ids:
        srcs = gnodes if m is None else [n for n in gnodes if any((a == n or b == n) and t == m for (a, b, t) in P)]
        for (s, e) in wins:
            cnt['queries'] += 1
            try:
                r = al.all_time_respecting_paths(G, s, e, min_t=m)
            except Exception as ex:
                viols.append(Violation(PROP, 'call', {'kind': 'raises', 'exc': type(ex).__name__, 'cls': c['cls'], 'entry': 'all'}, case([None, None, s, e, m]),
                                       {'graph': graphs.describe(c, sub)}))
                continue
            want = {}
            for u in srcs:
                for k, plist in _norm(full.get((u, s, e), {})).items():
                    want[(u, k[1])] = plist
            if _norm(r) != want:
                viols.append(Violation(PROP, 'all-paths', {'kind': 'all-differs-from-per-source', 'cls': c['cls'], 'min_t_given': m is not None},
                                       case([None, None, s, e, m]),
                                       {'graph': graphs.describe(c, sub), 'call': 'all_time_respecting_paths(G, start=%r, end=%r, min_t=%r)' % (s, e, m),
                                        'got keys': repr(sorted(_norm(r), key=repr)), 'expected keys': repr(sorted(want, key=repr))}))
    # sample < 1: every answer of the random chooser must give a subset of the full result
    if len(sub) <= c.get('sample_k', 4):
        real = pmod.np
        ch = _Chooser(real)
        pmod.np = ch
        try:
            for u, vt in [(u, None) for u in gnodes] + [(u, w) for u in gnodes for w in nodes if w != u][:4]:
                if vt is None:
                    fullset = _flat(full.get((u, None, None), {}))
                else:
                    fullset = _flat(al.time_respecting_paths(G, u, vt))
                for sample in (0.5, 0.34):
                    ch.answer = None
                    ch.asked = None
                    al.time_respecting_paths(G, u, vt, sample=sample)
                    if ch.asked is None:
                        continue
                    n, size = ch.asked
                    answers, capped = po.subsets_chooser(n, size)
                    if capped:
                        cnt['chooser_caps'] += 1
                    for ans in answers:
                        ch.answer = ans
                        cnt['queries'] += 1
                        cnt['chooser_answers'] += 1
                        try:
                            r = al.time_respecting_paths(G, u, vt, sample=sample)
                        except Exception as ex:
                            viols.append(Violation(PROP, 'sample', {'kind': 'raises', 'exc': type(ex).__name__, 'cls': c['cls']}, case([repr(u), None, None, None, sample, list(ans)]),
                                                   {'graph': graphs.describe(c, sub)}))
                            break
                        if not _flat(r) <= fullset:
                            viols.append(Violation(PROP, 'sample', {'kind': 'sample-not-a-subset', 'cls': c['cls']}, case([repr(u), None, None, None, sample, list(ans)]),
                                                   {'graph': graphs.describe(c, sub), 'extra': repr(sorted(_flat(r) - fullset)[:4])}))
                            break
        finally:
            pmod.np = real
    # query -> grow the same object -> query again: the answers must track the graph (no stale memo of an earlier answer)
    if 2 <= len(sub):
        import dynetx as dn
        H = getattr(dn, c['cls'])()
        Pp = set()
        chosen = sorted((atoms[i] for i in sub), key=lambda a: (a[2], a[0], a[1]))
        for step, (i, j, t) in enumerate(chosen):
            H.add_interaction(nodes[i], nodes[j], T[t])
            Pp.add((nodes[i], nodes[j], T[t]))
            if not directed:
                Pp.add((nodes[j], nodes[i], T[t]))
            pids = sorted(set(x[2] for x in Pp))
            observe_bundle(H)          # read-only queries (also at idle instants) between the steps: they must not matter
            for u in list(H.nodes()):
                cnt['queries'] += 1
                cnt['incremental_queries'] += 1
                want = po.brute_paths(Pp, directed, pids, u, None, None, None)
                try:
                    got = _flat(al.time_respecting_paths(H, u))
                except Exception as ex:
                    got = None
                if got != want:
                    viols.append(Violation(PROP, 'incremental', {'kind': 'answer-does-not-track-the-graph', 'cls': c['cls'],
                                                                 'stale': got is not None and bool(want - got)},
                                           case(['incremental', step, repr(u)]),
                                           {'graph so far': ['add_interaction(%r, %r, t=%r)' % (nodes[a], nodes[b], T[tt]) for (a, b, tt) in chosen[:step + 1]],
                                            'call': 'time_respecting_paths(G, %r) after each add_interaction on the same object' % (u,),
                                            'missing': repr(sorted(want - (got or set()))[:4]), 'extra': repr(sorted((got or set()) - want)[:4])}))
                    break
    # second life: the same object is cleared and refilled with the time-mirrored graph (same number of snapshot ids at other
    # instants); the answers must be those of the new graph
    if 2 <= len(sub) and len(set(t for (_, _, t) in P)) >= 1:
        lo_, hi_ = T[0], T[-1]
        try:
            H.clear()
            Pm = set()
            for (i, j, t) in sorted(chosen, key=lambda a: (-a[2], a[0], a[1])):
                tm = lo_ + hi_ - T[t]
                H.add_interaction(nodes[i], nodes[j], tm)
                Pm.add((nodes[i], nodes[j], tm))
                if not directed:
                    Pm.add((nodes[j], nodes[i], tm))
            mids = sorted(set(x[2] for x in Pm))
            for u in list(H.nodes()):
                cnt['queries'] += 1
                want = po.brute_paths(Pm, directed, mids, u, None, None, None)
                got = _flat(al.time_respecting_paths(H, u))
                if got != want:
                    viols.append(Violation(PROP, 'incremental', {'kind': 'answer-after-clear-and-refill-differs', 'cls': c['cls']},
                                           case(['second-life', repr(u)]),
                                           {'first life': graphs.describe(c, sub), 'then': 'clear() and the same interactions at mirrored instants',
                                            'missing': repr(sorted(want - got)[:4]), 'extra': repr(sorted(got - want)[:4])}))
                    break
        except Exception as ex:
            viols.append(Violation(PROP, 'incremental', {'kind': 'second-life-raises', 'exc': type(ex).__name__, 'cls': c['cls']}, case(['second-life']),
                                   {'first life': graphs.describe(c, sub), 'raised': repr(ex)[:200]}))
    if len(ids) >= 2 and len(sub) >= 2:
        cnt['nontrivial_graphs'] += 1
    return viols[:6], cnt


def run(tier, seed):
    cfs = pathbase.confs(tier, seed)
    c0 = cfs[0]
    nodes, T, pairs, atoms = graphs.universe(c0)
    sub = (0, 4, 8)
    P = graphs.presence_of(c0, sub)
    sample = {'universe': graphs.gconf_name(c0), 'graph': graphs.describe(c0, sub), 'source': nodes[0],
              'brute_force_paths': sorted(map(repr, po.brute_paths(P, False, sorted(set(t for _, _, t in P)), nodes[0], None, None, None)))}
    return pathbase.run(
        PROP, LEVEL, eval_graph, tier, seed, cfs, nontrivial_key='nontrivial_graphs',
        vacuity={'queries_with_3plus_paths': 100, 'chooser_answers': 100, 'incremental_queries': 1000}, samples=[sample],
        assumptions=['numpy.random.choice inside dynetx.algorithms.paths is replaced by a chooser whose every answer is enumerated '
                     '(all index subsets when <= 64, else a fixed family; caps counted in chooser_caps)',
                     'completeness is claimed on loop-free graphs only (DESIGN.md §3.9)'],
        rule='every loop-free temporal graph of the universes in per_universe x every source in the graph x every target (None, each node) x '
             'every integer (start,end) inside the id range and the None defaults: returned path set == independent brute-force enumeration '
             '(empty when the source has no interaction at start); all_time_respecting_paths x min_t == per-source results; sample<1: every '
             'chooser answer yields a subset; incremental pass: the graph is grown interaction by interaction on one object and queried after '
             'every step (answers must track the graph); non-trivial = graph with >= 2 snapshot ids and >= 2 timed interactions')


def replay(case):
    v, _ = eval_graph(case['gconf'], tuple(case['atoms']))
    return v
