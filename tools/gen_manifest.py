#!/usr/bin/env python3
"""Regenerate /verif/MANIFEST.json from the table below (kept valid at all times)."""
import json
import os

VERIF = os.path.dirname(os.path.dirname(os.path.abspath(__file__)))

# id -> (level category, technique, level text, level note, design ref)
CHECKS = {}


def add(pid, cat, technique, text, note):
    CHECKS[pid] = (cat, technique, text, note)


BFS = ('explicit-state BFS over call histories executed on the real classes, reference model beside it, '
       'state oracle on every distinct state')

add('C01', 'model_checking', BFS + '; oracle: union-of-spans model + accept/reject rule',
    'Every add_* call history within the stated alphabets/depths (U1 one pair deep, U2 all pairs and bulk helpers, '
    'two pairs sharing instants, seeded prefixes; both classes; id/time flavours) is executed on the real code; after '
    'every transition the outcome class is compared with the rule and in every distinct state has_interaction is '
    'compared with the union of added spans on all ordered pairs x all probe instants.',
    'Trusted: the 150-line reference model, the structural state key (equal key => equal futures, by determinism of '
    'the library), PYTHONHASHSEED=0. Bounds in evidence; histories beyond the depth bound are not covered.')


def main():
    props = [json.loads(l)['id'] for l in open(os.path.join(VERIF, 'properties.jsonl'))]
    checks = []
    na = []
    for pid in props:
        if pid in CHECKS and os.path.exists(os.path.join(VERIF, 'mc', 'props', pid + '.py')):
            cat, tech, text, note = CHECKS[pid]
            checks.append({
                'property_id': pid,
                'quick_cmd': './check %s quick' % pid,
                'thorough_cmd': './check %s thorough' % pid,
                'evidence_file': 'evidence/%s.json' % pid,
                'replay_cmd_template': './check replay {path}',
                'engine': 'mc',
                'level_claimed': {'category': cat, 'text': text, 'design_ref': 'DESIGN.md §5/' + pid},
                'level_note': note,
                'technique': tech,
            })
        else:
            na.append({'property_id': pid, 'reason': 'check not built yet (planned in DESIGN.md §5/%s); nothing is claimed' % pid})
    man = {
        'version': 1,
        'setup_cmd': './check setup',
        'hooks': {
            'guard': 'DYNETX_VERIF',
            'enable': 'no source hooks exist: every property is observable through the public API; checks import '
                      '/repo\'s working tree directly (pure Python, nothing to build)',
            'baseline_off_cmd': 'cd /repo && /venv/bin/python -m pytest -ra -q -p no:cacheprovider --timeout=900 '
                                '--continue-on-collection-errors',
            'source_commits': [],
            'add_only': True,
        },
        'engines': [{'name': 'mc', 'path': 'mc/', 'serves_properties': [c['property_id'] for c in checks],
                     'kind_free_text': 'hand-written explicit-state explorer for Python: level-synchronous BFS over '
                                       'operation histories / exhaustive enumeration of bounded input spaces, executed '
                                       'on the real dynetx code with a reference model as oracle'}],
        'checks': checks,
        'not_applicable': na,
        'notes': 'See DESIGN.md. Known findings (genuine defects pinned by the test-suite) are listed in '
                 'known_findings.json; fixed defects are recorded there as status=fixed and suppress nothing.',
    }
    with open(os.path.join(VERIF, 'MANIFEST.json'), 'w') as f:
        json.dump(man, f, indent=1)
        f.write('\n')
    print('MANIFEST.json: %d checks, %d not_applicable' % (len(checks), len(na)))


if __name__ == '__main__':
    main()
