"""Shared runner for the graph-enumerating properties (C12, C13, C15, C20)."""
from .. import graphs, common
from ..common import Violation


def confs(tier, seed, loops_k=None, directed_k=None, undirected_k=None, flavours=(0, 1, 2)):
    """the universes of DESIGN.md §5/C12.  quick: flavour 0 over 4 instants (-2..1), the two other flavours over 3 instants
    with one timed interaction less (the seed selects which of them gets the larger bound); thorough: everything larger"""
    out = []
    if tier == 'quick':
        out.append(graphs.gconf('DynGraph', 0, 3, 4, undirected_k or 5))
        out.append(graphs.gconf('DynDiGraph', 0, 3, 4, directed_k or 4))
        if loops_k:
            out.append(graphs.gconf('DynGraph', 0, 3, 3, loops_k, loops=True))
            out.append(graphs.gconf('DynDiGraph', 0, 3, 3, loops_k, loops=True))
        others = [f for f in flavours if f != 0]
        for idx, fl in enumerate(others):
            bonus = 1 if others and idx == seed % len(others) else 0
            out.append(graphs.gconf('DynGraph', fl, 3, 3, 3 + bonus))
            out.append(graphs.gconf('DynDiGraph', fl, 3, 3, 3 + bonus))
    else:
        for fl in flavours:
            out.append(graphs.gconf('DynGraph', fl, 3, 4, 12))
            out.append(graphs.gconf('DynDiGraph', fl, 3, 4, directed_k or 5))
            if fl == flavours[0]:          # the 4-node universes once (flavour 0): they dominate the cost
                out.append(graphs.gconf('DynGraph', fl, 4, 4, undirected_k or 5))
                out.append(graphs.gconf('DynDiGraph', fl, 4, 3, 4))
            if loops_k:
                out.append(graphs.gconf('DynGraph', fl, 3, 4, loops_k + 1, loops=True))
                out.append(graphs.gconf('DynDiGraph', fl, 3, 3, loops_k + 1, loops=True))
    return out


def run(prop, level, fn, tier, seed, cfs, rule, nontrivial_key, vacuity=None, samples=None, assumptions=()):
    known = common.load_known()
    rep = common.Report(prop, tier, seed, level)
    sums = {}
    for c in cfs:
        total, viols = graphs.run_graphs(fn, c)
        rep.cov['per_universe'].append({'universe': graphs.gconf_name(c), 'graphs': total['graphs'],
                                        'expected_graphs': graphs.count_graphs(c), 'queries': total.get('queries', 0)})
        if total['graphs'] != graphs.count_graphs(c):
            rep.broken.append('%s: enumerated %d graphs, expected %d' % (graphs.gconf_name(c), total['graphs'], graphs.count_graphs(c)))
        for k, v in total.items():
            sums[k] = sums.get(k, 0) + v
        vs = []
        for j in viols:
            vs.append(Violation(j['property'] if j['property'] != '?' else prop, j['sub'],
                                {k: v for k, v in j['sig'].items() if k != 'sub'}, j['case'], j['detail']))
        rep.add_violations(vs, known)
    rep.cov['states'] = sums.get('graphs', 0)
    rep.cov['transitions'] = sums.get('queries', 0)
    rep.cov['traces_validated_against_impl'] = sums.get('queries', 0)
    rep.cov['evaluations'] = sums.get('queries', 0)
    rep.cov['distinct_nontrivial'] = sums.get(nontrivial_key, 0)
    rep.cov['counters'] = sums
    if vacuity:
        for name, least in vacuity.items():
            if sums.get(name, 0) < least:
                rep.broken.append('%s = %d < %d' % (name, sums.get(name, 0), least))
    for s in (samples or []):
        rep.sample(s)
    rep.assumptions = ['PYTHONHASHSEED=0', 'presence relation = the atoms the graph was built from (C01 ties has_interaction to them)',
                       'states = temporal graphs enumerated, transitions = queries executed on the real code'] + list(assumptions)
    return rep.finish(known, rule)
