"""C06 — time_slice keeps exactly the presence inside the window, in a new graph."""
import dynetx as dn
from .. import universes as U
from .. import oracles, projection, observe
from . import base

PROP = 'C06'
LEVEL = 'model_checking'


def _both_snap(conf, A, B):
    ts = sorted(set(observe.probe_times(A, conf)) | set(observe.probe_times(B, conf)))
    ns = observe.probe_nodes(A, conf)
    ns = ns + [n for n in observe.probe_nodes(B, conf) if n not in ns]
    return observe.light(A, conf, ns, ts), observe.light(B, conf, ns, ts)


def check_window(conf, G, a, b, nodes, times, P, inner, deep):
    """one window; b None = one-argument form.  Returns triples."""
    res = []
    fl = U.FLAVOURS[conf['flavour']]
    lo, hi = a, (a if b is None else b)
    form = 'one-arg' if b is None else 'two-arg'

    def bad(kind, detail, **feat):
        sig = {'kind': kind, 'form': form}
        sig.update(feat)
        d = {'window': [a, b]}
        d.update(detail)
        res.append(('slice', sig, d))

    try:
        H = G.time_slice(a) if b is None else G.time_slice(a, b)
    except Exception as ex:
        bad('raises', {'exc': type(ex).__name__}, exc=type(ex).__name__)
        return res
    if type(H) is not type(G):
        bad('class', {'got': type(H).__name__})
        return res
    want = set((u, v, t) for (u, v, t) in P if lo <= t <= hi)
    htimes = sorted(set(times) | set(observe.probe_times(H, conf)))
    hnodes = list(nodes) + [n for n in H.nodes() if n not in nodes]
    PH = observe.presence(H, hnodes, htimes)
    if PH != want:
        missing = sorted(want - PH, key=repr)
        extra = sorted(PH - want, key=repr)
        feat = {}
        if missing:
            feat['missing_at'] = sorted(set('window-end' if t == hi else ('window-start' if t == lo else 'inside') for (_, _, t) in missing))
        if extra:
            feat['extra_at'] = sorted(set('outside-window' if not (lo <= t <= hi) else 'inside' for (_, _, t) in extra))
            feat['extra_reversed'] = all((v, u, t) in want for (u, v, t) in extra)
        bad('presence', {'missing': repr(missing[:6]), 'extra': repr(extra[:6])}, **feat)
    ends = set()
    for (u, v, t) in want:
        ends.add(u)
        ends.add(v)
    if set(H.nodes()) != ends:
        bad('nodes', {'got': repr(sorted(H.nodes(), key=repr)), 'endpoints': repr(sorted(ends, key=repr))})
    else:
        gd = dict(G.nodes(data=True))
        for n, d in H.nodes(data=True):
            if d != gd[n]:
                bad('node-attributes', {'node': repr(n), 'got': repr(d), 'in G': repr(gd[n])})
                break
    for sub, sig, det in oracles.well_formed(H, conf, 'time_slice'):
        bad('result-' + sig['kind'], det, oracle=sub)
    if deep:
        known = list(H.nodes())
        if known:
            for t in ((lo,) if b is None else (None,)):
                for sub, sig, det in projection.check(H, conf, hnodes, PH, t, known, fl['z']):
                    from ..common import Violation, match_known
                    v = Violation('C02', sub, dict(sig, cls=conf['cls'], mode='rm'), {}, det)
                    if match_known(v, _KNOWN) is None:      # the pinned C02 findings are not C06's business
                        bad('result-projection', det, entry=sig.get('entry'), pkind=sig.get('kind'))
        try:
            H2 = dn.time_slice(G, a) if b is None else dn.time_slice(G, a, b)
            s1, s2 = _both_snap(conf, H, H2)
            if s1 != s2:
                bad('functional-form-differs', {'in': observe.snapshot_diff(s1, s2)})
            H3 = G.time_slice(t_from=a) if b is None else G.time_slice(t_to=b, t_from=a)
            s1, s3 = _both_snap(conf, H, H3)
            if s1 != s3:
                bad('keyword-form-differs', {'in': observe.snapshot_diff(s1, s3)})
        except Exception as ex:
            bad('functional-form-raises', {'exc': type(ex).__name__})
    # slicing a slice == slicing by the intersection
    for (c, d) in inner:
        try:
            HH = H.time_slice(c, d)
        except Exception as ex:
            bad('slice-of-slice-raises', {'inner': [c, d], 'exc': type(ex).__name__})
            break
        i0, i1 = max(lo, c), min(hi, d)
        if i0 <= i1:
            R = G.time_slice(i0, i1)
        else:
            R = type(G)()
        s1, s2 = _both_snap(conf, HH, R)
        diff = observe.snapshot_diff(s1, s2)
        if diff:
            bad('slice-of-slice', {'inner': [c, d], 'differs in': diff})
            break
    return res


_KNOWN = []


def state_fn(conf, hist, G, M):
    global _KNOWN
    if not _KNOWN:
        from ..common import load_known
        _KNOWN = load_known()
    nodes, times, P, PP = oracles.presence_ctx(G, conf)
    o = U.FLAVOURS[conf['flavour']]['origin']
    rng = list(range(o - 1, o + conf['w'] + 1))
    if conf['w'] > 6:
        rng = rng[::2]        # wide-window universe (LONG): every second instant as a window bound
    trip = []
    before = observe.snapshot(G, conf, times)
    evals = 0
    deep = True
    cuts = 0
    for a in rng:
        for b in [None] + [x for x in rng if x >= a]:
            lo, hi = a, (a if b is None else b)
            inner = []
            if b is not None:
                inner = [(c, d) for (c, d) in ((lo - 1, hi + 1), (lo + 1, hi), (lo, hi - 1), (hi + 1, hi + 1)) if c <= d]
            deep = b is None or (a == rng[0] and b == rng[-1])
            trip += check_window(conf, G, a, b, nodes, times, P, inner, deep)
            evals += 1 + len(inner)
            if any(((u, v, lo - 1) in P and (u, v, lo) in P) or ((u, v, hi + 1) in P and (u, v, hi) in P) for (u, v, t) in P):
                cuts += 1
        # invalid windows
        for b in [x for x in rng if x < a]:
            try:
                G.time_slice(a, b)
                trip.append(('slice', {'kind': 'invalid-window-accepted'}, {'window': [a, b]}))
            except ValueError:
                pass
            except Exception as ex:
                trip.append(('slice', {'kind': 'invalid-window-wrong-exception', 'exc': type(ex).__name__}, {'window': [a, b]}))
            evals += 1
    after = observe.snapshot(G, conf, times)
    if before != after:
        trip.append(('slice', {'kind': 'source-graph-changed', 'components': observe.snapshot_diff(before, after)}, {}))
    seen = set()
    out = []
    for sub, sig, det in trip:
        k = repr(sorted(sig.items(), key=repr))
        if k not in seen:
            seen.add(k)
            out.append((sub, sig, det))
    cnt = {'evaluations': evals, 'nontrivial': 1 if cuts else 0, 'windows_cutting_a_run': cuts,
           'states_with_attrs': 1 if any(d for _, d in G.nodes(data=True)) else 0}
    return out, cnt, {}


def run(tier, seed):
    which = ('U0', 'U1', 'U2', 'TWO', 'U3', 'LONG', 'UC')
    params = {'u1_depth': 2, 'u2_depth': 1, 'two_depth': 2, 'u3_depth': 1, 'long_depth': 3, 'uc_depth': 4} if tier == 'quick' else \
        {'u1_depth': 3, 'two_depth': 3, 'u2_depth': 2, 'u3_depth': 1, 'long_depth': 4, 'uc_depth': 5}
    return base.run_state_property(
        PROP, LEVEL, state_fn, tier, seed, thorough_full=(0, 1), which=which, params=params, reduced=base.REDUCED_TINY,
        vacuity={'windows_cutting_a_run': 100, 'states_with_attrs': 5}, sample_fn=base.default_samples,
        rule='BFS over add_*/add_node histories, both classes, removal enabled; every distinct state x every window a<=b over '
             'o-1..o+w (and the one-argument form) : class, has_interaction(H) == clipped has_interaction(G) on all pairs x instants, '
             'nodes == endpoints with G\'s attributes, C03/C04/C05 oracles and the C02 projection oracle (t=None, t=a) on H, '
             'dn.time_slice == method, slice-of-slice == slice by the intersection for inner windows around the ends, every b<a '
             'raises ValueError, G observably unchanged; evaluations = slices taken; non-trivial = state with a window cutting a run')


def replay(case):
    return base.replay_state_property(PROP, state_fn, case)
