#!/usr/bin/env python3
"""Regenerate /verif/MANIFEST.json from the table below (kept valid at all times)."""
import json
import os

VERIF = os.path.dirname(os.path.dirname(os.path.abspath(__file__)))

# id -> (level category, technique, level text, level note, design ref)
CHECKS = {}


def add(pid, cat, technique, text, note):
    CHECKS[pid] = (cat, technique, text, note)


BFS = ('explicit-state BFS over call histories executed on the real classes, reference model beside it, '
       'state oracle on every distinct state')

add('C01', 'model_checking', BFS + '; oracle: union-of-spans model + accept/reject rule',
    'Every add_* call history within the stated alphabets/depths (U1 one pair deep, U2 all pairs and bulk helpers, '
    'two pairs sharing instants, seeded prefixes; both classes; id/time flavours) is executed on the real code; after '
    'every transition the outcome class is compared with the rule and in every distinct state has_interaction is '
    'compared with the union of added spans on all ordered pairs x all probe instants.',
    'Trusted: the 150-line reference model, the structural state key (equal key => equal futures, by determinism of '
    'the library), PYTHONHASHSEED=0. Bounds in evidence; histories beyond the depth bound are not covered.')

NOTE = ('Trusted: the reference model / oracle code in mc/, the structural state key (equal key => equal futures, by '
        'determinism of the library), PYTHONHASHSEED=0. Bounds are in the evidence file; behaviour beyond them is not covered.')
ENUM = 'exhaustive enumeration of a bounded input space, every input executed on the real code and compared with a direct definition'

add('C02', 'model_checking', BFS + '; oracle: static networkx graph built from has_interaction at t',
    'Every reachable state (both classes, both modes) x every probe instant and t=None x every query entry point (methods and '
    'module-level helpers) x an nbunch menu is compared with the static graph induced by the state\'s own has_interaction matrix.', NOTE)
add('C03', 'model_checking', BFS + '; oracle: canonical-form invariant on every exposed timeline',
    'Every reachable removal-enabled state and every library-derived graph of it: each exposed timeline is sorted, disjoint, '
    'non-adjacent, its union equals presence, both endpoints expose the same list.', NOTE)
add('C04', 'model_checking', BFS + '; oracle: inhabited instants / per-instant pair counts from presence',
    'Every reachable removal-enabled state x every probe instant: snapshot ids == inhabited instants, per-snapshot counts == '
    'number of pairs present, avg_number_of_nodes == mean.', NOTE)
add('C05', 'model_checking', BFS + '; oracle: stream<->presence conditions + replay reconstruction',
    'Every reachable removal-enabled state: chronological, duplicate-free stream; + exactly at run starts; - only at run ends; '
    'runs longer than one instant closed; replaying the stream reconstructs presence.', NOTE)
add('C06', 'model_checking', BFS + '; every window and inner window on every state; oracle: clipped presence, well-formedness, before/after equality',
    'Every reachable removal-enabled state x every window (valid and invalid) x inner windows: time_slice result vs clipped presence.', NOTE)
add('C07', 'model_checking', 'explicit-state BFS with fault enumeration: every rejected call in every reachable state, twin comparison + continuations',
    'Every reachable state (both classes, both modes) x every call the rule rejects (incl. bulk helpers failing mid-way): observable '
    'snapshot equals that of the twin that never made the call; continuations compared when internals differ.', NOTE)
add('C08', 'model_checking', BFS + ' with edge_removal=False; oracle: accumulative reference model',
    'Every reachable accumulative state: presence == [first add, last snapshot id], ids == accepted instants, stream == one + per pair.', NOTE)
add('C09', 'model_checking', 'explicit-state BFS states x I/O menu (delimiter, encoding, target kind, id type); oracle: exact row multiset + presence after read-back',
    'Every reachable removal-enabled state x I/O menu: bytes written == one row per (interaction, instant); read-back presence equal; 4-column rows read as spans.', NOTE)
add('C10', 'model_checking', 'explicit-state BFS states x I/O menu plus all well-formed event logs up to k rows; oracle: stream rows, reader model, presence+stream equality',
    'Every reachable removal-enabled state: written rows == stream; read-back has equal presence and stream; every well-formed chronological '
    'event log up to the bound is fed to the reader and compared with the reader model.', NOTE)
add('C11', 'model_checking', 'explicit-state BFS states x attrs/directed menu through a real JSON encoder; oracle: link multiset, node/attr/class/presence equality',
    'Every reachable state with isolated nodes and attributes x (attrs id, directed key, directed argument): node_link_data content and rebuilt graph.', NOTE)
add('C12', 'model_checking', 'exhaustive enumeration of temporal graphs (presence matrices) x all (u,v,start,end); oracle: per-hop soundness conditions',
    'All temporal graphs over small universes built through the public API x all source/target/window choices: every returned path is checked hop by hop.', NOTE)
add('C13', 'model_checking', 'exhaustive enumeration of temporal graphs x all (u,v,start,end,min_t); oracle: independent brute-force path enumerator; RNG answers enumerated',
    'Same universe as C12 (loop-free): result set == brute-force enumeration; sample<1 subset for every chooser answer; all_time_respecting_paths == per-source results.', NOTE)
add('C14', 'exploration', ENUM + ' (all ordered lists of abstract paths)',
    'annotate_paths on every ordered list of up to k paths over an abstract path set with ties and duplicates, vs the direct definitions of the five criteria.', NOTE)
add('C15', 'model_checking', 'exhaustive enumeration of temporal graphs x roots x targets x windows (valid and invalid); oracle: acyclicity, edge soundness, sources/targets, exception type',
    'Same graphs as C12 x every root/target/window incl. invalid ones: DAG acyclic, edges sound, sources exact, ValueError exactly on invalid windows.', NOTE)
add('C16', 'model_checking', 'explicit-state BFS states of the source class; oracle: presence union/intersection, isolation by mutation, well-formedness of the result',
    'Every reachable state: to_undirected (both reciprocal values) / to_directed result vs union/intersection of presence; copies are isolated; G unchanged.', NOTE)
add('C17', 'model_checking', 'explicit-state BFS states (DynGraph, no self-loops); oracle: exact Fraction recomputation from presence / the stream',
    'Every reachable state with >= 1 snapshot: each statistic equals its definition computed exactly from presence; inter-event histograms from the stream.', NOTE)
add('C18', 'exploration', ENUM + ' (all line sequences over a row grammar x delimiter; all timestamp sets in a window)',
    'Readers on every line sequence up to k over a noise/valid row grammar vs the graph of the valid rows alone; compact_timeslot on every subset; keys=True on every clean file.', NOTE)
add('C19', 'model_checking', 'explicit-state BFS states x every public inherited networkx callable (introspection) x synthesised args; frozen twin; oracle: exception type + observational equality + well-formedness',
    'Every inherited networkx callable in every reachable state with synthesised arguments; every mutator on the frozen twin.', NOTE)
add('C20', 'exploration', ENUM + ' (all labelled temporal graphs over small universes — every subset of pairs x instants up to k, every one-contact-per-instant history on 5 nodes x 5 instants, every subset of a two-route template on 6 nodes — x start x delta x alpha x path type); relations: range, key set, invariances, uniform labels, sliding = pointwise; vacuity guard: the path type must change some answer',
    'delta_conformity / sliding_delta_conformity on every labelled temporal graph of the universe: range, node set, label/id renaming invariance, uniform-label value, sliding consistency.', NOTE)


def main():
    props = [json.loads(l)['id'] for l in open(os.path.join(VERIF, 'properties.jsonl'))]
    checks = []
    na = []
    for pid in props:
        if pid in CHECKS and os.path.exists(os.path.join(VERIF, 'mc', 'props', pid + '.py')):
            cat, tech, text, note = CHECKS[pid]
            checks.append({
                'property_id': pid,
                'quick_cmd': './check %s quick' % pid,
                'thorough_cmd': './check %s thorough' % pid,
                'evidence_file': 'evidence/%s.json' % pid,
                'replay_cmd_template': './check replay {path}',
                'engine': 'mc',
                'level_claimed': {'category': cat, 'text': text, 'design_ref': 'DESIGN.md §5/' + pid},
                'level_note': note,
                'technique': tech,
            })
        else:
            na.append({'property_id': pid, 'reason': 'check not built yet (planned in DESIGN.md §5/%s); nothing is claimed' % pid})
    man = {
        'version': 1,
        'setup_cmd': './check setup',
        'hooks': {
            'guard': 'DYNETX_VERIF',
            'enable': 'no source hooks exist: every property is observable through the public API; checks import '
                      '/repo\'s working tree directly (pure Python, nothing to build)',
            'baseline_off_cmd': 'cd /repo && /venv/bin/python -m pytest -ra -q -p no:cacheprovider --timeout=900 '
                                '--continue-on-collection-errors',
            'source_commits': [],
            'add_only': True,
        },
        'engines': [{'name': 'mc', 'path': 'mc/', 'serves_properties': [c['property_id'] for c in checks],
                     'kind_free_text': 'hand-written explicit-state explorer for Python: level-synchronous BFS over '
                                       'operation histories / exhaustive enumeration of bounded input spaces, executed '
                                       'on the real dynetx code with a reference model as oracle'}],
        'checks': checks,
        'not_applicable': na,
        'notes': 'See DESIGN.md. Known findings (genuine defects pinned by the test-suite) are listed in '
                 'known_findings.json; fixed defects are recorded there as status=fixed and suppress nothing.',
    }
    with open(os.path.join(VERIF, 'MANIFEST.json'), 'w') as f:
        json.dump(man, f, indent=1)
        f.write('\n')
    print('MANIFEST.json: %d checks, %d not_applicable' % (len(checks), len(na)))


if __name__ == '__main__':
    main()
