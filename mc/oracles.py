"""State oracles shared by several properties.  All of them look only at the public API and take
the state's own has_interaction matrix as *the* presence relation (DESIGN.md §2.3).

Each oracle returns a list of (sub, sig, detail) triples; the caller turns them into Violations.
"""
import numbers
from fractions import Fraction
import dynetx as dn
from .model import runs_of
from . import observe

MAX_IV = 5000


def pk(G, u, v):
    return observe.pairkey(G, u, v)


def presence_ctx(G, conf, extra_times=()):
    nodes = observe.probe_nodes(G, conf)
    times = observe.probe_times(G, conf, extra_times)
    P = observe.presence(G, nodes, times)
    return nodes, times, P, observe.presence_by_pair(G, P)


# ---------------------------------------------------------------------------------------------
# C03: canonical timelines

def _timeline_entries(G):
    """[(view name, u, v, timeline)] from every flattened view that exposes timelines"""
    out = []
    if G.is_directed():
        for it in G.out_interactions():
            out.append(('out_interactions', it[0], it[1], it[2].get('t')))
        for it in G.in_interactions():
            out.append(('in_interactions', it[0], it[1], it[2].get('t')))
        # interactions() on directed graphs: orientation/dedupe is C02's business; the timeline it
        # exposes must still be the pair's (either orientation is accepted here)
        for it in G.interactions():
            out.append(('interactions', it[0], it[1], it[2].get('t')))
    else:
        for it in G.interactions():
            out.append(('interactions', it[0], it[1], it[2].get('t')))
        for n in G.nodes():
            for it in G.interactions([n]):
                out.append(('interactions[nbunch]', it[0], it[1], it[2].get('t')))
    return out


def canonical(G, conf, ctx=None, what='graph'):
    nodes, times, P, PP = ctx or presence_ctx(G, conf)
    res = []
    seen_pairs = set()
    for view, u, v, tl in _timeline_entries(G):
        bad = None
        if not isinstance(tl, list) or not tl:
            bad = 'not-a-nonempty-list'
        else:
            for iv in tl:
                if not isinstance(iv, (list, tuple)) or len(iv) != 2:
                    bad = 'interval-shape'
                    break
                if not (isinstance(iv[0], numbers.Integral) and isinstance(iv[1], numbers.Integral)):
                    bad = 'interval-type'
                    break
                if iv[0] > iv[1]:
                    bad = 'start-after-end'
                    break
                if iv[1] - iv[0] > MAX_IV:
                    bad = 'absurd-interval'
                    break
            if bad is None:
                for a, b in zip(tl, tl[1:]):
                    if not a[1] + 1 < b[0]:
                        bad = 'overlapping' if a[1] >= b[0] else 'adjacent-not-merged'
                        if b[0] < a[0]:
                            bad = 'unsorted'
                        break
        if bad is None:
            union = set()
            for iv in tl:
                union.update(range(iv[0], iv[1] + 1))
            if view == 'interactions' and G.is_directed():
                cand = [PP.get((u, v), set()), PP.get((v, u), set())]
            else:
                cand = [PP.get(pk(G, u, v), set())]
            # presence beyond the probe window is checked directly
            def pres_on(a, b):
                s = set(t for t in union if G.has_interaction(a, b, t))
                return s
            ok = False
            for idx, c in enumerate(cand):
                a, b = (u, v) if idx == 0 else (v, u)
                if pres_on(a, b) == union and c <= union:
                    ok = True
            if not ok:
                bad = 'union-differs-from-presence'
        if bad:
            res.append(('canonical', {'kind': bad, 'view': view, 'what': what},
                        {'pair': repr((u, v)), 'timeline': repr(tl),
                         'presence': repr(sorted(PP.get(pk(G, u, v), set())))}))
        seen_pairs.add(pk(G, u, v))
    # every present pair must be exposed with a timeline by the flattened view
    for k in PP:
        if k not in seen_pairs and not (G.is_directed() and (k[1], k[0]) in seen_pairs and False):
            res.append(('canonical', {'kind': 'pair-without-timeline', 'what': what}, {'pair': repr(k)}))
    # undirected: the same timeline from both endpoints; directed: in/out views agree
    by = {}
    for view, u, v, tl in _timeline_entries(G):
        if view == 'interactions' and G.is_directed():
            continue
        by.setdefault(pk(G, u, v), set()).add(repr(tl))
    for k, reps in by.items():
        if len(reps) > 1:
            res.append(('canonical', {'kind': 'views-disagree', 'what': what}, {'pair': repr(k), 'timelines': sorted(reps)}))
    return res


# ---------------------------------------------------------------------------------------------
# C04: snapshot ids and per-snapshot counts

def pairs_at(G, P, t):
    return set(pk(G, u, v) for (u, v, tt) in P if tt == t)


def snapshots(G, conf, ctx=None, what='graph'):
    nodes, times, P, PP = ctx or presence_ctx(G, conf)
    res = []
    ids = G.temporal_snapshots_ids()
    inhabited = sorted(set(t for (_, _, t) in P))
    if list(ids) != sorted(set(ids)):
        res.append(('ids', {'kind': 'ids-not-strictly-ascending', 'what': what}, {'ids': repr(ids)}))
    if sorted(set(ids)) != inhabited:
        extra = sorted(set(ids) - set(inhabited))
        missing = sorted(set(inhabited) - set(ids))
        res.append(('ids', {'kind': 'ids-differ-from-inhabited', 'extra': bool(extra), 'missing': bool(missing),
                            'what': what},
                    {'ids': repr(ids), 'inhabited': repr(inhabited)}))
    cnt = {t: len(pairs_at(G, P, t)) for t in times}
    for t in times:
        got = G.interactions_per_snapshots(t)
        if not _num_eq(got, cnt[t]):
            res.append(('counts', {'kind': 'per-snapshot-count', 'what': what,
                                   'rel': 'over' if _gt(got, cnt[t]) else 'under'},
                        {'t': t, 'interactions_per_snapshots(t)': repr(got), 'pairs present': cnt[t]}))
            break
    allc = G.interactions_per_snapshots()
    exp = {t: cnt.get(t, 0) for t in ids}
    if not (isinstance(allc, dict) and set(allc) == set(exp) and all(_num_eq(allc[t], exp[t]) for t in exp)):
        res.append(('counts', {'kind': 'count-map', 'what': what}, {'got': repr(allc), 'expected': repr(exp)}))
    if dn.interactions_per_snapshots(G) != allc or list(dn.temporal_snapshots_ids(G)) != list(ids):
        res.append(('counts', {'kind': 'functional-form-differs', 'what': what}, {}))
    if ids:
        try:
            got = G.avg_number_of_nodes()
            exp_avg = Fraction(sum(G.number_of_nodes(t) for t in ids), len(ids))
            if abs(Fraction(got).limit_denominator(10 ** 9) - exp_avg) > Fraction(1, 10 ** 9):
                res.append(('avg', {'kind': 'avg-number-of-nodes', 'what': what},
                            {'got': repr(got), 'expected': str(exp_avg)}))
        except Exception as ex:
            res.append(('avg', {'kind': 'avg-raises', 'exc': type(ex).__name__, 'what': what}, {}))
    return res


def _num_eq(a, b):
    try:
        return abs(float(a) - float(b)) < 1e-9
    except Exception:
        return False


def _gt(a, b):
    try:
        return float(a) > float(b)
    except Exception:
        return False


# ---------------------------------------------------------------------------------------------
# C05: the stream

def stream(G, conf, ctx=None, d5=None, what='graph'):
    """d5: {pair key: [[a,b],..]} runs for which the pinned defect D5 predicts a missing '-'"""
    nodes, times, P, PP = ctx or presence_ctx(G, conf)
    d5 = d5 or {}
    res = []
    st = list(G.stream_interactions())
    if list(dn.stream_interactions(G)) != st:
        res.append(('stream', {'kind': 'functional-form-differs', 'what': what}, {}))
    for ev in st:
        if not (isinstance(ev, tuple) and len(ev) == 4 and ev[2] in ('+', '-')):
            res.append(('stream', {'kind': 'event-shape', 'what': what}, {'event': repr(ev)}))
            return res
    ts = [ev[3] for ev in st]
    if any(a > b for a, b in zip(ts, ts[1:])):
        res.append(('stream', {'kind': 'not-chronological', 'what': what}, {'stream': repr(st)}))
    seen = set()
    for (u, v, op, t) in st:
        k = (pk(G, u, v), op, t)
        if k in seen:
            res.append(('stream', {'kind': 'repeated-event', 'op': op, 'what': what}, {'event': repr((u, v, op, t)), 'stream': repr(st)}))
            break
        seen.add(k)
    ev_by = {}
    for (u, v, op, t) in st:
        ev_by.setdefault(pk(G, u, v), []).append((t, op))
    for k in set(PP) | set(ev_by):
        pres = PP.get(k, set())
        evs = ev_by.get(k, [])
        plus = sorted(t for t, op in evs if op == '+')
        minus = sorted(t for t, op in evs if op == '-')
        exp_plus = sorted(t for t in pres if (t - 1) not in pres)
        bad = False
        if plus != exp_plus:
            kind = 'plus-missing' if set(exp_plus) - set(plus) else 'plus-spurious'
            res.append(('stream', {'kind': kind, 'what': what},
                        {'pair': repr(k), "'+' events": plus, 'run starts': exp_plus, 'presence': sorted(pres)}))
            bad = True
        for t in minus:
            if not ((t - 1) in pres and t not in pres):
                res.append(('stream', {'kind': 'minus-not-at-run-end', 'what': what},
                            {'pair': repr(k), "'-' at": t, 'presence': sorted(pres)}))
                bad = True
                break
        for a, b in runs_of(pres):
            if b > a and (b + 1) not in minus:
                explained = [a, b] in d5.get(k, [])
                res.append(('stream', {'kind': 'unclosed-run', 'run_len': b - a + 1, 'd5': explained, 'what': what},
                            {'pair': repr(k), 'run': [a, b], "'-' events": minus, 'stream': repr(st)}))
                bad = True
        if not bad:
            # constructive form: replaying the events reconstructs the presence
            rec = set()
            cur = None
            for t, op in sorted(evs, key=lambda x: (x[0], 0 if x[1] == '-' else 1)):
                if op == '+':
                    if cur is not None:
                        rec.add(cur)
                    cur = t
                else:
                    if cur is not None:
                        rec.update(range(cur, t))
                    cur = None
            if cur is not None:
                rec.add(cur)
            if rec != pres:
                res.append(('stream', {'kind': 'replay-differs', 'what': what},
                            {'pair': repr(k), 'replayed': sorted(rec), 'presence': sorted(pres)}))
    return res


def well_formed(G, conf, what, d5=None):
    """C03+C04+C05 on a graph the library produced (used by C06, C16, C19)"""
    ctx = presence_ctx(G, conf)
    return canonical(G, conf, ctx, what) + snapshots(G, conf, ctx, what) + stream(G, conf, ctx, d5, what)
