"""C17 — temporal statistics equal their stream-graph definitions (exact Fraction recomputation)."""
from fractions import Fraction
import itertools
import collections
from .. import universes as U
from .. import oracles, observe
from . import base

PROP = 'C17'
LEVEL = 'model_checking'
TOL = Fraction(1, 10 ** 12)


def no_selfloop(op):
    if op[0] in ('add', 'addnot'):
        return op[1] != op[2]
    if op[0] == 'bulk':
        return all(i != j for (i, j) in U.bulk_elements(op))
    return True


def _close(got, want):
    try:
        g = Fraction(got).limit_denominator(10 ** 15) if isinstance(got, float) else Fraction(got)
    except Exception:
        return False
    return abs(g - want) <= TOL * max(1, abs(want))


def gaps_hist(times):
    h = collections.Counter()
    for a, b in zip(times, times[1:]):
        h[b - a] += 1
    return dict(h)


def inter_event(G, conf, trip):
    st = list(G.stream_interactions())
    n_checked = 0
    directed = G.is_directed()

    def cmp(name, got, times):
        want = gaps_hist(times)
        ok = isinstance(got, dict) and got == want
        if ok and len(times) >= 1:
            ok = sum(got.values()) == len(times) - 1 and sum(k * v for k, v in got.items()) == times[-1] - times[0]
        if not ok:
            trip.append(('inter-event', {'kind': 'histogram', 'entry': name}, {'got': repr(got), 'expected': repr(want), 'stream': repr(st)[:300]}))

    try:
        cmp('inter_event_time_distribution()', G.inter_event_time_distribution(), [e[3] for e in st])
        import dynetx as dn
        cmp('dn.inter_event_time_distribution(G)', dn.inter_event_time_distribution(G), [e[3] for e in st])
        n_checked += 2
        for u in G.nodes():
            cmp('inter_event_time_distribution(u)', G.inter_event_time_distribution(u), [e[3] for e in st if e[0] == u or e[1] == u])
            cmp('inter_event_time_distribution(u=u)', G.inter_event_time_distribution(u=u), [e[3] for e in st if e[0] == u or e[1] == u])
            cmp('dn.inter_event_time_distribution(G, u)', dn.inter_event_time_distribution(G, u), [e[3] for e in st if e[0] == u or e[1] == u])
            n_checked += 1
            if directed:
                cmp('inter_in_event_time_distribution(u)', G.inter_in_event_time_distribution(u), [e[3] for e in st if e[1] == u])
                cmp('inter_out_event_time_distribution(u)', G.inter_out_event_time_distribution(u), [e[3] for e in st if e[0] == u])
                n_checked += 2
        if directed:
            cmp('inter_in_event_time_distribution()', G.inter_in_event_time_distribution(), [e[3] for e in st])
            cmp('inter_out_event_time_distribution()', G.inter_out_event_time_distribution(), [e[3] for e in st])
    except Exception as ex:
        trip.append(('inter-event', {'kind': 'raises', 'exc': type(ex).__name__}, {'stream': repr(st)[:300]}))
    return n_checked


def stats(G, conf, nodes, times, P, PP, trip):
    """the ratio measures on a loop-free DynGraph with >= 1 snapshot"""
    n_checked = 0
    ids = sorted(set(t for (_, _, t) in P))
    V = list(G.nodes())
    Tn = {u: set(t for (a, b, t) in P if a == u) for u in V}
    Tuv = {k: set(v) for k, v in PP.items()}
    Vt = {t: set(u for u in V if t in Tn[u]) for t in ids}
    deg = {(u, t): len(set(b for (a, b, tt) in P if a == u and tt == t)) for u in V for t in ids}
    nT = len(ids)

    def chk(name, fn, want, unit=True):
        nonlocal n_checked
        n_checked += 1
        try:
            got = fn()
        except Exception as ex:
            trip.append(('stat', {'kind': 'raises', 'entry': name, 'exc': type(ex).__name__}, {'expected': str(want)}))
            return
        if not _close(got, want):
            trip.append(('stat', {'kind': 'value', 'entry': name, 'rel': 'over' if float(got) > float(want) else 'under'},
                         {'got': repr(got), 'expected': '%s = %.6f' % (want, float(want)), 'ids': ids}))
        elif unit and not (0 <= want <= 1):
            trip.append(('stat', {'kind': 'definition-outside-unit-interval', 'entry': name}, {'expected': str(want)}))

    chk('coverage', G.coverage, Fraction(sum(len(Vt[t]) for t in ids), nT * len(V)))
    chk('avg_number_of_nodes', G.avg_number_of_nodes, Fraction(sum(len(Vt[t]) for t in ids), nT), unit=False)
    for u in V:
        chk('node_contribution', lambda: G.node_contribution(u), Fraction(len(Tn[u]), nT))
        try:
            got = G.node_presence(u)
            n_checked += 1
            if set(got) != Tn[u]:
                trip.append(('stat', {'kind': 'value', 'entry': 'node_presence'}, {'got': repr(got), 'expected': repr(sorted(Tn[u]))}))
        except Exception as ex:
            trip.append(('stat', {'kind': 'raises', 'entry': 'node_presence', 'exc': type(ex).__name__}, {}))
        den = sum(len(Tn[v] & Tn[u]) for v in V)
        num = sum(deg[(u, t)] for t in ids if t in Tn[u])
        chk('node_density', lambda: G.node_density(u), Fraction(num, den) if den else Fraction(0))
    num_u = den_u = num_d = den_d = 0
    for u, v in itertools.combinations(V, 2):
        k = observe.pairkey(G, u, v)
        tuv = Tuv.get(k, set())
        inter = Tn[u] & Tn[v]
        union = Tn[u] | Tn[v]
        num_u += len(inter)
        den_u += len(union)
        num_d += len(tuv)
        den_d += len(inter)
        if G.has_interaction(u, v):
            chk('edge_contribution', lambda: G.edge_contribution(u, v), Fraction(len(tuv), nT))
        if union:
            chk('node_pair_uniformity', lambda: G.node_pair_uniformity(u, v), Fraction(len(inter), len(union)))
        chk('pair_density', lambda: G.pair_density(u, v), Fraction(len(tuv), len(inter)) if inter else Fraction(0))
    if den_u:
        chk('uniformity', G.uniformity, Fraction(num_u, den_u))
    if den_d:
        chk('density', G.density, Fraction(num_d, den_d))
    for t in times:
        nt = len(Vt.get(t, ()))
        mt = len(set(k for k, s in Tuv.items() if t in s))
        chk('snapshot_density', lambda: G.snapshot_density(t), Fraction(2 * mt, nt * (nt - 1)) if nt > 1 else Fraction(0))
    return n_checked


def state_fn(conf, hist, G, M):
    nodes, times, P, PP = oracles.presence_ctx(G, conf)
    trip = []
    n = inter_event(G, conf, trip)
    loopfree = not any(k[0] == k[1] for k in PP)
    did_stats = 0
    if conf['cls'] == 'DynGraph' and loopfree and P:
        did_stats = stats(G, conf, nodes, times, P, PP, trip)
    seen = set()
    out = []
    for sub, sig, det in trip:
        k = repr(sorted(sig.items()))
        if k not in seen:
            seen.add(k)
            out.append((sub, sig, det))
    ids = set(t for (_, _, t) in P)
    cnt = {'evaluations': n + did_stats, 'nontrivial': 1 if len(ids) >= 2 and len(PP) >= 2 else 0,
           'states_with_stats': 1 if did_stats else 0, 'stat_values_checked': did_stats,
           'states_partial_coverage': 1 if did_stats and len(set(len(set(t for (a, b, t) in P if a == u)) for u in G.nodes())) > 1 else 0}
    return out, cnt, {}


def run(tier, seed):
    params = {'u1_depth': 3, 'u2_depth': 2, 'two_depth': 3, 'u3_depth': 1} if tier == 'quick' else {'u1_depth': 4}
    return base.run_state_property(
        PROP, LEVEL, state_fn, tier, seed, pure=True, reduced=base.REDUCED, params=params, flavours=(0, 1, 2, 3, 6),
        vacuity={'states_with_stats': 100, 'states_partial_coverage': 50}, sample_fn=base.default_samples,
        assumptions=['node_density uses the denominator pinned by test_density (sum over all nodes v, u itself included)',
                     'ratio measures whose definition has a zero denominator that the library does not guard are skipped',
                     'float results are compared with exact Fractions at relative tolerance 1e-12'],
        rule='BFS over add_* histories, removal enabled, both classes; every distinct state: inter-event histograms (global, per node, '
             'in/out per node on DynDiGraph) == gaps of the chronological stream restricted accordingly (mass = #events-1, weighted sum = '
             'last-first); every distinct loop-free DynGraph state with >= 1 snapshot: coverage, node_contribution, edge_contribution, '
             'uniformity, node_pair_uniformity, density, pair_density, node_density, snapshot_density (every probe instant), node_presence, '
             'avg_number_of_nodes recomputed exactly from has_interaction; non-trivial = >= 2 snapshot ids and >= 2 pairs')


def replay(case):
    return base.replay_state_property(PROP, state_fn, case)
