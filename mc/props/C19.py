"""C19 — untimed networkx mutators are blocked; frozen graphs are immutable."""
import inspect
import itertools
import networkx as nx
import dynetx as dn
from .. import universes as U
from .. import oracles, observe, engine
from . import base

PROP = 'C19'
LEVEL = 'model_checking'

BLOCKED = ['add_edge', 'add_edges_from', 'add_weighted_edges_from', 'update', 'remove_edge', 'remove_edges_from',
           'remove_node', 'remove_nodes_from', 'edges_iter', 'in_edges', 'out_edges', 'in_edges_iter', 'out_edges_iter']
NODE_ONLY = ['add_node', 'add_nodes_from']
INTERACTION_COMPONENTS = ('presence', 'ever', 'ids', 'counts', 'per_t', 'stream', 'timelines')
NODE_P = {'n', 'u', 'v', 'node_for_adding', 'u_of_edge', 'v_of_edge', 'node'}
NBUNCH_P = {'nbunch', 'nodes', 'nodes_for_adding'}
EBUNCH_P = {'ebunch', 'ebunch_to_add', 'edges'}


def callables_of(cls):
    """every public function of the networkx base class's API, resolved on the dynetx class (inherited or
    overridden there), plus the dynetx-only names the statement lists"""
    nxbase = nx.DiGraph if issubclass(cls, nx.DiGraph) else nx.Graph
    out = []
    for name in sorted(dir(cls)):
        if name.startswith('_'):
            continue
        attr = inspect.getattr_static(cls, name)
        if not inspect.isfunction(attr):
            continue
        mod = getattr(attr, '__module__', '') or ''
        base_attr = inspect.getattr_static(nxbase, name, None)
        if mod.startswith('networkx'):
            out.append((name, 'inherited'))
        elif base_attr is not None and (inspect.isfunction(base_attr) or name in BLOCKED):
            out.append((name, 'override'))
        elif name in BLOCKED:
            out.append((name, 'override'))
    return out


def arg_menus(name, fn, a, b, d, z):
    """<= 12 argument tuples synthesised from the signature (per-parameter-name menus)"""
    try:
        sig = inspect.signature(fn)
    except (TypeError, ValueError):
        return None
    req = [p for p in list(sig.parameters.values())[1:] if p.default is inspect._empty and p.kind in (p.POSITIONAL_ONLY, p.POSITIONAL_OR_KEYWORD)]
    menus = []
    for p in req:
        if p.name in NODE_P:
            menus.append([a, z, b])
        elif p.name in NBUNCH_P:
            menus.append([[a, b], [a, z], []])
        elif p.name in EBUNCH_P:
            if name == 'add_weighted_edges_from':
                menus.append([[(a, b, 1.0)], [(a, z, 2.0)], []])
            else:
                menus.append([[(a, b)], [(a, z)], []])
        else:
            return None
    calls = [(tuple(c), {}) for c in itertools.product(*menus)][:9]
    opt = {p.name for p in list(sig.parameters.values())[1:] if p.default is not inspect._empty}
    extra = []
    if name == 'update':
        calls = [((), {'edges': [(a, b)]}), ((), {'edges': [(a, z)], 'nodes': [z]}), ((), {'edges': [(a, a)]}), ((), {'edges': []})]
    if name in ('reverse',):
        extra += [((), {'copy': False}), ((), {'copy': True})]
    if 'as_view' in opt:
        extra += [((), {'as_view': True})] if not req else []
    if name == 'number_of_edges':
        extra += [((a, b), {}), ((a, z), {})]
    if name == 'nbunch_iter':
        extra += [(([a, z],), {}), ((a,), {})]
    if 'data' in opt and not req:
        extra += [((), {'data': True})]
    if name == 'add_edge':
        extra += [((a, b, {'weight': 3}), {}), ((a, z), {'weight': 3}), ((), {'u': a, 'v': b})]
    if name == 'add_edges_from':
        extra += [(([(a, b)], {'weight': 3}), {}), (([(a, z)],), {'weight': 3})]
    if name in ('remove_edge',):
        extra += [((), {'u': a, 'v': b})]
    if name in ('add_node',):
        extra += [((d,), {'label': 'X'})]
    if name in ('add_nodes_from',):
        extra += [(([d, z],), {'label': 'X'})]
    if name == 'get_edge_data':
        extra += [((a, b), {'default': 0})]
    return (calls + extra)[:12]


def do_call(G, name, args, kw, functional=False):
    try:
        if functional:
            r = getattr(dn, name)(G, *args, **kw)
        else:
            r = getattr(G, name)(*args, **kw)
        if r is not None and not isinstance(r, (nx.Graph, dict, list, tuple, str, int, float, bool)):
            try:
                it = iter(r)
                for _, _x in zip(range(50), it):
                    pass
            except TypeError:
                pass
        return 'ok'
    except Exception as ex:
        return type(ex).__name__


def interaction_diff(s0, s1):
    return [k for k in observe.snapshot_diff(s0, s1) if k in INTERACTION_COMPONENTS]


def check_state(conf, hist, G0, M):
    fl = U.FLAVOURS[conf['flavour']]
    a, b, d, z = fl['ids'][0], fl['ids'][1], fl['ids'][3], fl['z']
    cls = type(G0)
    trip = []
    cnt = {'calls': 0, 'mutating_calls': 0, 'unsynthesised': 0, 'frozen_calls': 0}
    times = observe.probe_times(G0, conf)
    snap0 = observe.snapshot(G0, conf, times)
    probe_nodes = observe.probe_nodes(G0, conf)
    key0 = observe.canon_impl(G0)
    G = G0

    def fresh():
        g, _, _ = engine.execute(conf, hist)
        return g

    def bad(kind, detail, **feat):
        sig = {'kind': kind}
        sig.update(feat)
        trip.append(('api', sig, detail))

    names = callables_of(cls)
    for name, origin in names:
        menus = arg_menus(name, getattr(cls, name), a, b, d, z)
        if menus is None:
            cnt['unsynthesised'] += 1
            continue
        for args, kw in menus:
            cnt['calls'] += 1
            out = do_call(G, name, args, kw)
            if name in BLOCKED and out != 'NetworkXNotImplemented':
                bad('blocked-callable-not-blocked', {'call': '%s%r %r' % (name, args, kw), 'outcome': out}, callable=name, outcome=out)
            key1 = observe.canon_impl(G)
            if key1 != key0:
                cnt['mutating_calls'] += 1
                s1 = observe.snapshot(G, conf, times)
                diff = interaction_diff(snap0, s1)
                if name in ('clear', 'clear_edges') and out == 'ok':
                    # the two documented removers: everything must be gone, consistently (well-formedness below)
                    left = [c for c in ('presence', 'ever', 'ids', 'stream', 'timelines') if s1[c]]
                    if left or (name == 'clear' and s1['nodes']) or (name == 'clear_edges' and s1['nodes'] != snap0['nodes']):
                        bad('remover-left-something', {'call': name + '()', 'still there': left, 'nodes': repr(s1['nodes'])[:200]}, callable=name)
                    for n in probe_nodes:
                        try:
                            leftovers = (list(G.in_interactions([n])) + list(G.predecessors(n))) if G.is_directed() and n in G else []
                        except Exception:
                            leftovers = ['raises']
                        if leftovers:
                            bad('remover-left-something', {'call': name + '()', 'in-side of': repr(n), 'left': repr(leftovers)[:200]}, callable=name, side='in')
                            break
                elif diff:
                    bad('interaction-state-changed', {'call': '%s%r %r' % (name, args, kw), 'outcome': out, 'changed': diff},
                        callable=name, components=diff)
                elif name not in NODE_ONLY and name != 'update' and observe.snapshot_diff(snap0, s1):
                    bad('state-changed-by-non-mutator', {'call': '%s%r %r' % (name, args, kw), 'changed': observe.snapshot_diff(snap0, s1)}, callable=name)
                # C03-C05 are statements about removal-enabled graphs; accumulative graphs are covered by the
                # 'interaction-level observables unchanged' comparison above
                for sub, sig, det in (oracles.well_formed(G, conf, 'after ' + name, d5=M.d5_runs()) if conf['removal'] else []):
                    if sig.get('kind') == 'unclosed-run' and sig.get('d5'):
                        continue        # the pinned C05 finding D5, already present before the call
                    bad('ill-formed-after-call', dict(det, call='%s%r %r' % (name, args, kw)), callable=name, oracle=sig['kind'])
                G = fresh()
    for name, argsets in (('set_edge_attributes', (({(a, b): 1}, 'w'), ({(a, b): {'w': 1}},), (3, 'w'))),
                          ('get_edge_attributes', (('w',), ('t',)))):
        for args in list(argsets) + ['KW']:
            cnt['calls'] += 1
            if args == 'KW':        # the graph passed by keyword
                try:
                    getattr(dn, name)(G=G, name='w', **({'values': {(a, b): 1}} if name == 'set_edge_attributes' else {}))
                    out = 'ok'
                except Exception as ex:
                    out = type(ex).__name__
            else:
                out = do_call(G, name, args, {}, functional=True)
            if out != 'NetworkXNotImplemented':
                bad('blocked-callable-not-blocked', {'call': 'dn.%s(G, *%r)' % (name, args), 'outcome': out}, callable='dn.' + name, outcome=out)
            if observe.canon_impl(G) != key0:
                # structural difference is only a hint (a memo may have been primed): the verdict is observational
                d_ = observe.snapshot_diff(snap0, observe.snapshot(G, conf, times))
                if d_:
                    bad('interaction-state-changed', {'call': 'dn.%s' % name, 'changed': d_}, callable='dn.' + name, components=d_)
                G = fresh()
    # ---- frozen twin: every mutator raises and changes nothing
    F = fresh()
    try:
        r = dn.freeze(F)
        if r is not F or not dn.is_frozen(F):
            bad('freeze-does-not-freeze', {'is_frozen': dn.is_frozen(F)})
    except Exception as ex:
        bad('freeze-raises', {'exc': repr(ex)[:200]})
        return trip, cnt
    if dn.is_frozen(G0) and not any(True for _ in ()):
        bad('unfrozen-graph-reports-frozen', {})
    fkey = observe.canon_impl(F)
    mutators = []
    for name, origin in names:
        if name in BLOCKED or name in NODE_ONLY or name in ('clear', 'clear_edges'):
            menus = arg_menus(name, getattr(cls, name), a, b, d, z)
            for args, kw in (menus or [])[:4]:
                mutators.append((name, ('method', name, args, kw)))
    w = conf['w']
    ops = [('add', 0, 1, w - 1, None), ('add', 1, 2, 1, 3), ('add', 3, 3, 0, None),
           ('bulk', 'from', 'm', ((0, 1), (1, 2)), w - 1, None), ('bulk', 'path', 'm', (0, 1, 2), w - 1, None),
           ('bulk', 'path', 'f', (0, 3), w - 1, None), ('bulk', 'star', 'f', (3, 1, 2), w - 1, None), ('bulk', 'cycle', 'f', (0, 1, 3), w - 1, None)]
    if conf['cls'] == 'DynGraph':
        ops += [('bulk', 'star', 'm', (3, 1), w - 1, None), ('bulk', 'cycle', 'm', (0, 1, 3), w - 1, None)]
    fam = {'add': 'add_interaction', 'from': 'add_interactions_from', 'path': 'add_path', 'star': 'add_star', 'cycle': 'add_cycle'}
    for op in ops:
        nm = fam[op[0]] if op[0] == 'add' else (('dn.' if op[2] == 'f' else '') + fam[op[1]])
        mutators.append((nm, ('op', op)))
    Fsnap = observe.snapshot(F, conf, times)
    for nm, spec in mutators:
        cnt['frozen_calls'] += 1
        if spec[0] == 'method':
            out = do_call(F, spec[1], spec[2], spec[3])
            desc = '%s%r %r' % (spec[1], spec[2], spec[3])
        else:
            out = U.apply_op(F, conf, spec[1])
            desc = U.op_concrete(conf, spec[1])
        changed = observe.canon_impl(F) != fkey
        if out == 'ok' or changed:
            s1 = observe.snapshot(F, conf, times)
            diff = observe.snapshot_diff(Fsnap, s1)
            if out == 'ok' and (diff or nm.split('.')[-1] in fam.values() or nm in NODE_ONLY or nm in ('clear', 'clear_edges')):
                bad('frozen-mutator-succeeded', {'call': desc, 'changed': diff}, callable=nm, changed=bool(diff))
            elif out != 'ok' and diff:
                bad('frozen-mutator-raised-but-changed-state', {'call': desc, 'outcome': out, 'changed': diff}, callable=nm)
            if changed:
                F = fresh()
                dn.freeze(F)
    # an unfrozen copy derived from the frozen graph can be grown freely -- the frozen graph must not move
    F = fresh()
    dn.freeze(F)
    Fsnap = observe.snapshot(F, conf, times)
    for conv in (('to_undirected',) if F.is_directed() else ('to_directed',)) + ('time_slice',):
        try:
            ids_ = F.temporal_snapshots_ids()
            D = F.time_slice(ids_[0], ids_[-1]) if conv == 'time_slice' and ids_ else (getattr(F, conv)() if conv != 'time_slice' else None)
        except Exception:
            D = None
        if D is None:
            continue
        for it in list(D.out_interactions() if D.is_directed() else D.interactions()):
            tl = it[2].get('t') or []
            if tl:
                for (t_, e_) in ((tl[-1][1] + 1, None), (tl[-1][1], tl[-1][1] + 3)):
                    try:
                        D.add_interaction(it[0], it[1], t_) if e_ is None else D.add_interaction(it[0], it[1], t_, e_)
                    except Exception:
                        pass
        cnt['frozen_calls'] += 1
        s1 = observe.snapshot(F, conf, times)
        if s1 != Fsnap:
            bad('frozen-graph-changed-through-derived-copy', {'derived by': conv, 'changed': observe.snapshot_diff(Fsnap, s1)}, conv=conv)
            F = fresh()
            dn.freeze(F)
    return trip, cnt


def state_fn(conf, hist, G, M):
    trip, c = check_state(conf, hist, G, M)
    seen = set()
    out = []
    for sub, sig, det in trip:
        k = repr(sorted(sig.items(), key=repr))
        if k not in seen:
            seen.add(k)
            out.append((sub, sig, det))
    cnt = {'evaluations': c['calls'] + c['frozen_calls'], 'nontrivial': 1 if len(M.pres) >= 1 else 0,
           'mutating_calls': c['mutating_calls'], 'unsynthesised_callables': c['unsynthesised'], 'frozen_calls': c['frozen_calls'],
           'api_calls': c['calls']}
    return out, cnt, {}


def run(tier, seed):
    params = {'u1_depth': 2, 'u2_depth': 1, 'two_depth': 2, 'u3_depth': 1} if tier == 'quick' else {'u1_depth': 3, 'u2_depth': 2, 'two_depth': 3, 'u3_depth': 1}

    def samples(p):
        out = []
        for cls in (dn.DynGraph, dn.DynDiGraph):
            out.append({'class': cls.__name__, 'callables': ['%s (%s)' % c for c in callables_of(cls)]})
        return out
    return base.run_state_property(
        PROP, LEVEL, state_fn, tier, seed, thorough_full=(0, 1), which=base.NO_LONG, reduced=base.REDUCED_LIGHT, modes=(True, False), params=params, flavours=(0, 1, 2),
        vacuity={'mutating_calls': 100, 'frozen_calls': 1000, 'api_calls': 10000}, sample_fn=samples,
        assumptions=['the callable list is found by introspection of the installed networkx (%s); arguments are synthesised per parameter name' % nx.__version__,
                     'objects returned by inherited calls (views, networkx copies) are not G and are not checked'],
        rule='BFS over add_*/add_node histories, both classes, both modes; every distinct state x every public function inherited from '
             'networkx.Graph/DiGraph (plus the dynetx overrides and dn.set_/get_edge_attributes named by the statement) x <= 12 synthesised '
             'argument tuples: blocked names raise NetworkXNotImplemented; after any call that changed the object, interaction-level '
             'observables (presence, timelines, ids, counts, stream) are unchanged and C03/C04/C05 hold on the post-state; second pass on the '
             'frozen twin: every mutator (blocked names, add_node(s), clear, clear_edges, add_interaction and its bulk helpers in both forms) '
             'raises and leaves the snapshot unchanged; evaluations = calls made; non-trivial = state with an interaction')


def replay(case):
    return base.replay_state_property(PROP, state_fn, case)
