#!/venv/bin/python
"""Cross-check of the alphabets (DESIGN.md §2.7): which executable lines of /repo/dynetx are reached by the
state/graph/input functions of the checks?  Single process, sys.monitoring, a reduced but representative slice of
every universe.  Prints the lines never executed, per function — each one is either dead code, outside every
property, or a gap in an alphabet.   usage: PYTHONHASHSEED=0 tools/linecov.py [--json out.json]"""
import ast
import os
import sys

VERIF = os.path.dirname(os.path.dirname(os.path.abspath(__file__)))
sys.path.insert(0, VERIF)
sys.path.insert(0, os.environ.get('VERIF_REPO', '/repo'))
os.environ.setdefault('TQDM_DISABLE', '1')
sys.dont_write_bytecode = True

from mc import common  # noqa
common.bootstrap()
ROOT = os.path.realpath(common.REPO) + '/dynetx/'
hits = {}

mon = sys.monitoring
TOOL = mon.COVERAGE_ID
mon.use_tool_id(TOOL, 'linecov')


def on_line(code, line):
    fn = code.co_filename
    if fn.startswith(ROOT) and '/test/' not in fn:
        hits.setdefault(fn, set()).add(line)
    return mon.DISABLE


mon.register_callback(TOOL, mon.events.LINE, on_line)
mon.set_events(TOOL, mon.events.LINE)


def executable_lines(path):
    tree = ast.parse(open(path).read())
    lines = {}
    for node in ast.walk(tree):
        if isinstance(node, (ast.FunctionDef, ast.AsyncFunctionDef)):
            body = node.body
            if body and isinstance(body[0], ast.Expr) and isinstance(getattr(body[0], 'value', None), ast.Constant) and isinstance(body[0].value.value, str):
                body = body[1:]
            for st in body:
                for sub in ast.walk(st):
                    if isinstance(sub, ast.stmt) and not isinstance(sub, (ast.FunctionDef, ast.ClassDef)):
                        lines.setdefault(sub.lineno, node.name)
    return lines


def drive():
    import itertools
    from mc import universes as U, engine, graphs
    from mc.props import C01, C02, C03, C04, C05, C06, C07, C08, C09, C10, C11, C12, C13, C14, C15, C16, C17, C18, C19, C20, pathbase
    from mc import iocommon
    iocommon.scratch()
    state_fns = [C01.check_state, C02.state_fn, C03.state_fn, C04.state_fn, C05.state_fn, C06.state_fn, C09.state_fn, C10.state_fn,
                 C11.state_fn, C16.state_fn, C17.state_fn, C19.state_fn]
    for cls in ('DynGraph', 'DynDiGraph'):
        for removal in (True, False):
            for fl in (0, 1):
                conf = U.conf_make(cls, removal, fl, 4)
                alpha = U.alphabet_U2(conf)
                hists = [()] + [tuple(s) for s in U.seeds_U3(conf)] + [(a,) for a in alpha]
                hists += [(a, b) for a in alpha[::7] for b in alpha[::5]]
                for h in hists:
                    G, M, outs = engine.execute(conf, h)
                    if any(o[0] not in engine.LEGIT for o in outs):
                        continue
                    for fn in state_fns:
                        if not removal and fn not in (C02.state_fn, C19.state_fn):
                            continue
                        try:
                            G2, M2, _ = engine.execute(conf, h)
                            fn(conf, h, G2, M2)
                        except Exception as ex:
                            print('driver: %s raised %r on %s' % (fn.__module__, ex, U.conf_name(conf)))
                    if not removal:
                        G2, M2, _ = engine.execute(conf, h)
                        C08.check_state(conf, h, G2, M2)
                    if h and outs[-1][0] in C07.REJECT:
                        C07.check_rejected(conf, h[:-1], h[-1], G, outs[-1][0], alpha[:20])
    for mod, cfs in ((C12, pathbase.confs('quick', 0, loops_k=3)), (C13, pathbase.confs('quick', 0)), (C15, pathbase.confs('quick', 0, loops_k=3)), (C20, C20.confs('quick', 0))):
        for c in cfs:
            for sub in itertools.islice(graphs.iter_graphs(c), 0, 3000, 13):
                mod.eval_graph(c, sub)
    for i in range(0, C14.total(3), 97):
        C14.eval_input(i, {'maxlen': 3})
    for reader, rows in (('snapshots', C18.SNAP_ROWS), ('interactions', C18.INT_ROWS)):
        n = sum(len(rows) ** L for L in range(0, 4))
        for i in range(0, n, 11):
            C18.eval_seq(i, {'reader': reader, 'k': 3})
    for i in range(0, 256, 3):
        C18.eval_compact(i, {'W': 8, 'base': -5, 'step': 2})
    for i in range(0, len(C18.key_files()), 5):
        C18.eval_keyfile(i, None)
    rep = common.Report('C18', 'quick', 0, 'exploration')
    C18.conversions(rep, [])
    rep9 = common.Report('C09', 'quick', 0, 'model_checking')
    C09.four_column_rows(rep9, [])
    syms = C10.log_symbols(4)
    n = sum(len(syms) ** L for L in range(1, 4))
    for i in range(0, n, 7):
        C10.eval_log(i, {'syms': syms, 'k': 3, 'nt': 4})


def main():
    drive()
    mon.set_events(TOOL, 0)
    report = {}
    total = missed = 0
    for dirpath, _, files in os.walk(ROOT):
        if '/test' in dirpath:
            continue
        for f in files:
            if not f.endswith('.py'):
                continue
            path = os.path.join(dirpath, f)
            ex = executable_lines(path)
            got = hits.get(path, set())
            miss = {}
            for ln, fn in sorted(ex.items()):
                total += 1
                if ln not in got:
                    missed += 1
                    miss.setdefault(fn, []).append(ln)
            if miss:
                report[os.path.relpath(path, ROOT)] = miss
    print('executable lines in functions: %d, never executed by the checks\' drivers: %d (%.1f%%)' % (total, missed, 100.0 * missed / max(1, total)))
    for f, miss in sorted(report.items()):
        print(f)
        for fn, lns in sorted(miss.items(), key=lambda kv: kv[1][0]):
            print('   %-40s %s' % (fn, ' '.join(map(str, lns))))
    if '--json' in sys.argv:
        import json
        json.dump({'total': total, 'missed': missed, 'files': report}, open(sys.argv[sys.argv.index('--json') + 1], 'w'), indent=1)


if __name__ == '__main__':
    main()
