"""Run context, violations, replay records, known findings, evidence."""
import json
import os
import sys
import time
import hashlib
import subprocess

VERIF = os.path.dirname(os.path.dirname(os.path.abspath(__file__)))
REPO = os.environ.get('VERIF_REPO', '/repo')      # MANIFEST commands never set VERIF_REPO
EVIDENCE_SCHEMA = '/root/.vp/EVIDENCE.schema.json'
WORKERS = int(os.environ.get('VERIF_WORKERS', '16'))


def bootstrap():
    """pin the import root to REPO's working tree and refuse anything else"""
    os.environ.setdefault('TQDM_DISABLE', '1')
    sys.dont_write_bytecode = True
    if sys.path[0] != REPO:
        sys.path.insert(0, REPO)
    import dynetx
    f = os.path.realpath(dynetx.__file__)
    if not f.startswith(os.path.realpath(REPO) + os.sep):
        print('HARNESS-ERROR: dynetx imported from %s, not from %s' % (f, REPO))
        sys.exit(2)
    return dynetx


class Violation:
    """One failing case: `sig` = the violation record (structural features, used to match known
    findings), `case` = everything needed to re-run it, `detail` = expected vs observed."""

    def __init__(self, prop, sub, sig, case, detail):
        self.prop = prop
        self.sub = sub
        self.sig = dict(sig)
        self.sig['sub'] = sub
        self.case = case
        self.detail = detail

    def cls_key(self):
        return json.dumps(self.sig, sort_keys=True, default=repr)

    def to_json(self):
        return {'property': self.prop, 'sub': self.sub, 'sig': self.sig, 'case': self.case,
                'detail': self.detail}


def load_known():
    p = os.path.join(VERIF, 'known_findings.json')
    if not os.path.exists(p):
        return []
    return json.load(open(p))['findings']


def _sig_eq(got, want):
    if isinstance(want, dict) and set(want) == {'any_of'}:
        return got in want['any_of']
    return got == want


def match_known(v, known):
    """explained-by matching: every key of the finding's signature must be present in the
    violation record with exactly that value"""
    for f in known:
        if f.get('status') != 'known' or f['property'] != v.prop:
            continue
        sig = f['signature']
        if all(k in v.sig and _sig_eq(v.sig[k], val) for k, val in sig.items()):
            return f
    return None


def write_replay(v):
    os.makedirs(os.path.join(VERIF, 'replays'), exist_ok=True)
    body = json.dumps(v.to_json(), sort_keys=True, default=repr, indent=1)
    dg = hashlib.blake2b(body.encode(), digest_size=6).hexdigest()
    path = os.path.join(VERIF, 'replays', '%s-%s.json' % (v.prop, dg))
    with open(path, 'w') as f:
        f.write(body + '\n')
    # a plain unit test next to the record: replays the single case on the real code (no explorer, no search)
    calls = v.case.get('calls') or v.detail.get('graph') or v.detail.get('rows') or v.detail.get('lines') or []
    with open(path[:-5] + '_test.py', 'w') as f:
        f.write('# %s / %s: %s\n' % (v.prop, v.sub, json.dumps(v.sig, sort_keys=True, default=repr)))
        for c in (calls if isinstance(calls, list) else [calls]):
            f.write('#   %s\n' % (c,))
        f.write('# observed vs expected: %s\n' % json.dumps(v.detail, default=repr)[:900])
        f.write('import subprocess\n\n\ndef test_replay():\n'
                '    # exit 0 = the recorded case no longer violates the property, 1 = it still does\n'
                '    assert subprocess.call([%r, \'replay\', %r]) == 0\n\n\n'
                'if __name__ == \'__main__\':\n    test_replay()\n' % (os.path.join(VERIF, 'check'), path))
    return path


class Report:
    """collects coverage + violations of one check run, writes evidence, prints the verdict"""

    def __init__(self, prop, tier, seed, level):
        self.prop, self.tier, self.seed, self.level = prop, tier, seed, level
        self.t0 = time.time()
        self.cov = {'states': 0, 'transitions': 0, 'traces_validated_against_impl': 0,
                    'evaluations': 0, 'distinct_nontrivial': 0, 'samples': [], 'exhaustive': True,
                    'caps_hit': [], 'per_universe': []}
        self.violations = []      # new (unlisted) violation classes -> first witness
        self.vclasses = {}
        self.known_seen = {}      # finding id -> count
        self.nviol = 0
        self.assumptions = []
        self.broken = []          # vacuity failures: the check itself is not trustworthy

    def add_violations(self, vs, known):
        for v in vs:
            n = getattr(v, 'count', 1)
            f = match_known(v, known)
            if f is not None:
                self.known_seen[f['id']] = self.known_seen.get(f['id'], 0) + n
                continue
            self.nviol += n
            ck = v.cls_key()
            if ck not in self.vclasses:
                self.vclasses[ck] = [v, 0]
            self.vclasses[ck][1] += n

    def sample(self, s, limit=12):
        if len(self.cov['samples']) < limit:
            self.cov['samples'].append(s)

    def finish(self, known, rule, extra=None):
        cov = self.cov
        cov['rule'] = rule
        if extra:
            cov.update(extra)
        if cov['caps_hit']:
            cov['exhaustive'] = False
        wall = round(time.time() - self.t0, 2)
        cov['known_findings_seen'] = self.known_seen
        cov['violation_classes'] = [
            {'sig': json.loads(k), 'count': c, 'first': v.detail} for k, (v, c) in list(self.vclasses.items())[:20]]
        ev = {'property_id': self.prop, 'tier': self.tier, 'seed': self.seed, 'level': self.level,
              'coverage': cov, 'assumptions': self.assumptions, 'wall_s': wall, 'violations': self.nviol}
        os.makedirs(os.path.join(VERIF, 'evidence'), exist_ok=True)
        evp = os.path.join(VERIF, 'evidence', '%s.json' % self.prop)
        with open(evp, 'w') as f:
            json.dump(ev, f, indent=1, sort_keys=True, default=repr)
            f.write('\n')
        ok_schema = validate_evidence(evp)
        print('%s %s seed=%d: states=%d transitions=%d evaluations=%d nontrivial=%d exhaustive=%s wall=%.1fs'
              % (self.prop, self.tier, self.seed, cov['states'], cov['transitions'], cov['evaluations'],
                 cov['distinct_nontrivial'], cov['exhaustive'], wall))
        for f in known:
            if f['property'] == self.prop and f.get('status') == 'known' and self.known_seen.get(f['id']):
                print('KNOWN-FINDING: property=%s %s [%s; %d cases explained]'
                      % (self.prop, f['description'], f['id'], self.known_seen[f['id']]))
        rc = 0
        if self.vclasses:
            for k, (v, c) in list(self.vclasses.items())[:8]:
                path = write_replay(v)
                print('VIOLATION property=%s replay=%s' % (self.prop, path))
                print('  class=%s cases=%d' % (k, c))
                print('  %s' % json.dumps(v.detail, default=repr)[:600])
            if len(self.vclasses) > 8:
                print('  ... %d more violation classes (see evidence)' % (len(self.vclasses) - 8))
            rc = 1
        if self.broken:
            for b in self.broken:
                print('HARNESS-ERROR: vacuity guard: %s' % b)
            rc = rc or 2
        if not ok_schema:
            print('HARNESS-ERROR: evidence file does not validate against %s' % EVIDENCE_SCHEMA)
            rc = rc or 2
        return rc


def validate_evidence(path):
    code = ("import json,sys,jsonschema;"
            "jsonschema.validate(json.load(open(sys.argv[1])), json.load(open(sys.argv[2])))")
    try:
        r = subprocess.run(['python3-vt', '-c', code, path, EVIDENCE_SCHEMA], capture_output=True, text=True,
                           timeout=120)
    except Exception as ex:
        print('validator could not run: %r' % ex)
        return False
    if r.returncode != 0:
        print(r.stderr[-800:])
    return r.returncode == 0
