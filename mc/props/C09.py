"""C09 — snapshot edge-list files round-trip the presence relation."""
import collections
import os
import dynetx as dn
from .. import universes as U
from .. import oracles, observe, iocommon, engine, common
from ..model import Model, runs_of
from . import base

PROP = 'C09'
LEVEL = 'model_checking'


def nodetype_of(conf):
    return int if isinstance(U.FLAVOURS[conf['flavour']]['ids'][0], int) else str      # flavours 0, 2, 5 / 1, 4


def check_io(conf, G, nodes, times, P, PP, combo, serial):
    res = []
    d, enc, target = combo
    directed = G.is_directed()
    if enc == 'ascii' and conf['flavour'] == 4:
        return res, 0
    path = iocommon.fname('s%d' % serial, iocommon.EXT[target])

    def bad(kind, detail, **feat):
        sig = {'kind': kind, 'target': target, 'io': 'snapshots'}
        sig.update(feat)
        det = {'delimiter': d, 'encoding': enc, 'target': target}
        det.update(detail)
        res.append(('file', sig, det))

    try:
        if target == 'fileobj':
            with open(path, 'wb') as f:
                dn.write_snapshots(G, f, delimiter=d, encoding=enc)
                if f.closed:
                    bad('file-object-closed-by-writer', {})
                    return res, 1
                pos = f.tell()
                f.flush()
                if pos != os.path.getsize(path):
                    bad('file-object-position', {'tell': pos, 'size': os.path.getsize(path)})
        else:
            dn.write_snapshots(G, path, delimiter=d, encoding=enc)
    except Exception as ex:
        bad('write-raises', {'exc': repr(ex)[:200]}, exc=type(ex).__name__)
        return res, 1
    raw = iocommon.raw_bytes(path, target)
    # the writers encode line by line (a signature codec such as utf-8-sig therefore marks every line) and the readers
    # decode line by line: the file is decoded the same way
    try:
        parts = raw.split(b'\n')
        rows = [ln.decode(enc) for ln in parts[:-1]]
        tail = parts[-1]
    except Exception:
        bad('not-in-requested-encoding', {'bytes': repr(raw[:80])})
        return res, 1
    if raw and tail != b'':
        bad('last-line-not-terminated', {'tail': repr(raw[-30:])})
    got = collections.Counter()
    shape_bad = False
    for r in rows:
        parts = r.split(d)
        if len(parts) != 3:
            bad('row-shape', {'row': repr(r)})
            shape_bad = True
            break
        got[tuple(parts)] += 1
    if not shape_bad:
        want = collections.Counter()
        for k, ts in PP.items():
            for t in ts:
                want[(str(k[0]), str(k[1]), str(t))] += 1
        if directed:
            ok = got == want
        else:
            norm = collections.Counter()
            for (a, b, t), c in got.items():
                ka = (a, b, t) if (a, b, t) in want else (b, a, t)
                norm[ka] += c
            ok = norm == want
            got = norm
        if not ok:
            missing = sorted((want - got).elements())
            extra = sorted((got - want).elements())
            feat = {'missing': bool(missing), 'extra': bool(extra)}
            if extra and directed:
                feat['extra_reversed'] = all((b, a, t) in want for (a, b, t) in extra)
            if extra and not missing:
                feat['duplicate_rows'] = all(want[x] >= 1 for x in extra)
            bad('rows-differ-from-presence', {'missing': repr(missing[:5]), 'extra': repr(extra[:5]), 'rows': len(rows)}, **feat)
    # read back
    nt = nodetype_of(conf)
    ckw = {'comments': U.FLAVOURS[conf['flavour']]['comments']} if 'comments' in U.FLAVOURS[conf['flavour']] else {}
    for how in ('path', 'fileobj'):
        try:
            if how == 'path':
                if target == 'fileobj':
                    continue
                H = dn.read_snapshots(path, directed=directed, nodetype=nt, timestamptype=int, delimiter=d, encoding=enc, **ckw)
            else:
                if target not in ('plain', 'fileobj'):
                    continue
                with open(path, 'rb') as f:
                    H = dn.read_snapshots(f, directed=directed, nodetype=nt, timestamptype=int, delimiter=d, encoding=enc, **ckw)
        except Exception as ex:
            bad('read-raises', {'exc': repr(ex)[:200], 'how': how}, exc=type(ex).__name__)
            continue
        if type(H) is not type(G):
            bad('read-class', {'got': type(H).__name__})
            continue
        hn = list(nodes) + [n for n in H.nodes() if n not in nodes]
        ht = sorted(set(times) | set(observe.probe_times(H, conf)))
        PH = observe.presence(H, hn, ht)
        if PH != P:
            bad('read-back-presence-differs', {'missing': repr(sorted(P - PH, key=repr)[:5]), 'extra': repr(sorted(PH - P, key=repr)[:5]), 'how': how},
                missing=bool(P - PH), extra=bool(PH - P))
        for sub, sig, det in oracles.canonical(H, conf, what='read_snapshots'):
            bad('read-back-' + sig['kind'], det)
        if how == 'path' and target == 'plain' and not ckw:
            try:
                H2 = dn.read_snapshots(path, directed=directed, nodetype=nt, timestamptype=int, delimiter=d, encoding=enc, comments='//')
                if observe.presence(H2, hn, ht) != PH:
                    bad('custom-comment-marker-changes-graph', {'comments': '//'})
            except Exception as ex:
                bad('custom-comment-marker-raises', {'comments': '//', 'exc': repr(ex)[:200]}, exc=type(ex).__name__)
    # the same text read with the other id type, in the same process: int ids read as strings (and, for digit-free string
    # ids, nothing to cross) -- a reader must not remember conversions of an earlier call
    if nt is int and target == 'plain':
        try:
            H2 = dn.read_snapshots(path, directed=directed, nodetype=str, timestamptype=int, delimiter=d, encoding=enc, **ckw)
            want2 = set((str(u), str(v), t) for (u, v, t) in P)
            hn2 = [str(n) for n in nodes]
            got2 = observe.presence(H2, hn2, sorted(times))
            if got2 != want2 or any(not isinstance(n, str) for n in H2.nodes()):
                bad('read-with-other-nodetype-differs', {'node types': sorted(set(type(n).__name__ for n in H2.nodes())),
                                                        'missing': repr(sorted(want2 - got2)[:4]), 'extra': repr(sorted(got2 - want2)[:4])})
            H3 = dn.read_snapshots(path, directed=directed, nodetype=int, timestamptype=int, delimiter=d, encoding=enc, **ckw)
            if any(not isinstance(n, int) for n in H3.nodes()) or observe.presence(H3, list(nodes), sorted(times)) != P:
                bad('read-after-other-nodetype-differs', {'node types': sorted(set(type(n).__name__ for n in H3.nodes()))})
        except Exception as ex:
            bad('read-with-other-nodetype-raises', {'exc': repr(ex)[:200]}, exc=type(ex).__name__)
    try:
        os.unlink(path)
    except OSError:
        pass
    return res, 1


_serial = [0]


def big_files(rep, known):
    """files with many rows (long runs): exact rows and read-back presence at every instant, every target"""
    import collections as _c
    n = 0
    viols = []
    for cls in ('DynGraph', 'DynDiGraph'):
        for target in iocommon.TARGETS:
            G = getattr(dn, cls)()
            spans_ = [(0, 1, -3, 700), (1, 2, 5, 400), (2, 0, 650, 1300), (0, 1, 900, None)]
            for (u, v, t, e) in spans_:
                G.add_interaction(u, v, t) if e is None else G.add_interaction(u, v, t, e)
            want = _c.Counter()
            pres = set()
            for (u, v, t, e) in spans_:
                for x in range(t, (t + 1) if e is None else e):
                    want[(str(u), str(v), str(x))] += 1
                    pres.add((u, v, x))
            path = iocommon.fname('big-%s-%s' % (cls, target), iocommon.EXT[target])
            n += 1
            try:
                if target == 'fileobj':
                    with open(path, 'wb') as f:
                        dn.write_snapshots(G, f)
                else:
                    dn.write_snapshots(G, path)
                rows = iocommon.raw_bytes(path, target).decode('utf-8').split('\n')
                got = _c.Counter()
                for r in rows[:-1]:
                    a = tuple(r.split(' '))
                    got[a if (a in want or cls == 'DynDiGraph') else (a[1], a[0]) + a[2:]] += 1
                ok = rows[-1] == '' and got == want
                H = None
                if ok:
                    if target == 'fileobj':
                        with open(path, 'rb') as f:
                            H = dn.read_snapshots(f, directed=(cls == 'DynDiGraph'), nodetype=int, timestamptype=int)
                    else:
                        H = dn.read_snapshots(path, directed=(cls == 'DynDiGraph'), nodetype=int, timestamptype=int)
                    for (u, v) in ((0, 1), (1, 2), (2, 0), (1, 0), (0, 2)):
                        for x in range(-5, 1305):
                            exp = (u, v, x) in pres or (cls == 'DynGraph' and (v, u, x) in pres)
                            if bool(H.has_interaction(u, v, x)) != exp:
                                ok = False
                if not ok:
                    viols.append(common.Violation(PROP, 'big-file', {'kind': 'many-rows-file-differs', 'cls': cls, 'target': target,
                                                                     'rows': len(rows) - 1, 'expected_rows': sum(want.values())},
                                                  {'big': True}, {'rows written': len(rows) - 1, 'expected': sum(want.values()),
                                                                  'first odd rows': repr([r for r in rows[:-1] if len(r.split(' ')) != 3][:3])}))
            except Exception as ex:
                viols.append(common.Violation(PROP, 'big-file', {'kind': 'many-rows-file-raises', 'cls': cls, 'target': target, 'exc': type(ex).__name__},
                                              {'big': True}, {'raised': repr(ex)[:200]}))
            finally:
                try:
                    os.unlink(path)
                except OSError:
                    pass
    rep.add_violations(viols, known)
    return n


def state_fn(conf, hist, G, M):
    nodes, times, P, PP = oracles.presence_ctx(G, conf)
    full = len(hist) <= 1 or conf.get('full_menu')
    trip = []
    evals = 0
    for combo in iocommon.menu(full):
        _serial[0] += 1
        r, n = check_io(conf, G, nodes, times, P, PP, combo, _serial[0])
        trip += r
        evals += n
    seen = set()
    out = []
    for sub, sig, det in trip:
        k = repr(sorted(sig.items()))
        if k not in seen:
            seen.add(k)
            out.append((sub, sig, det))
    directed = conf['cls'] == 'DynDiGraph'
    recip = directed and any((k[1], k[0]) in PP and k[0] != k[1] for k in PP)
    multi = any(len(runs_of(s)) >= 2 for s in PP.values())
    cnt = {'evaluations': evals, 'nontrivial': 1 if len(PP) >= 2 or multi else 0, 'states_reciprocal': 1 if recip else 0,
           'states_multi_run': 1 if multi else 0, 'states_selfloop': 1 if any(k[0] == k[1] for k in PP) else 0}
    return out, cnt, {}


def four_column_rows(rep, known):
    """every sequence of <= 2 three-/four-column rows over the span menu on one pair (and a second pair),
    fed to parse_snapshots and read_snapshots; oracle: the union-of-spans model"""
    import itertools
    n = 0
    viols = []
    for cls in ('DynGraph', 'DynDiGraph'):
        conf = U.conf_make(cls, True, 0, 4)
        rows = []
        for (i, j) in ((0, 1), (1, 0), (1, 2)):
            for (t, e) in U.spans(4):
                rows.append((i, j, t - 2, None if e is None else e - 2))     # instants -2..1: the rows straddle 0
        seqs = [(r,) for r in rows] + [(a, b) for a in rows for b in rows]
        for seq in seqs:
            M = Model(conf)
            ok = True
            for (i, j, t, e) in seq:
                if M.verdict_add(i, j, t, e) != 'ok':
                    ok = False
                    break
                M.commit_add(i, j, t, e)
            if not ok:
                continue           # non-chronological input: outside the statement
            lines = ['%d %d %d' % (i, j, t) if e is None else '%d %d %d %d' % (i, j, t, e) for (i, j, t, e) in seq]
            n += 1
            try:
                H = dn.readwrite.edgelist.parse_snapshots(lines, directed=(cls == 'DynDiGraph'), nodetype=int, timestamptype=int)
            except Exception as ex:
                viols.append(common.Violation(PROP, 'four-column', {'kind': 'parse-raises', 'exc': type(ex).__name__, 'cls': cls},
                                              {'rows': lines, 'cls': cls}, {'rows': lines, 'raised': repr(ex)[:200]}))
                continue
            badp = None
            for u in range(3):
                for v in range(3):
                    for t in range(-4, 5):
                        if bool(H.has_interaction(u, v, t)) != M.present(u, v, t):
                            badp = (u, v, t)
            if badp:
                viols.append(common.Violation(PROP, 'four-column', {'kind': 'span-presence', 'cls': cls,
                                                                    'has_interval_row': any(r[3] is not None for r in seq)},
                                              {'rows': lines, 'cls': cls},
                                              {'rows': lines, 'first difference at': repr(badp), 'expected': 'row u v t e = span t..e-1'}))
    rep.add_violations(viols, known)
    return n


def run(tier, seed):
    params = {'u1_depth': 3, 'u2_depth': 2, 'two_depth': 2, 'u3_depth': 1} if tier == 'quick' else {'u1_depth': 3, 'u2_depth': 2, 'two_depth': 3, 'u3_depth': 1}
    extra = {}

    def samples(p):
        return base.default_samples(p)
    rc_holder = {}
    known = common.load_known()
    # four-column rows first (a small exhaustive input space), then the state x menu exploration
    iocommon.scratch()
    rep4 = common.Report(PROP, tier, seed, LEVEL)
    n4 = four_column_rows(rep4, known)
    nbig = big_files(rep4, known)
    orig_finish = common.Report.finish

    def finish(self, known_, rule, extra_=None):
        self.cov['four_column_row_sequences'] = n4
        self.cov['many_row_files'] = nbig
        self.cov['evaluations'] += n4 + nbig
        for k, (v, c) in rep4.vclasses.items():
            self.vclasses[k] = [v, c]
            self.nviol += c
        return orig_finish(self, known_, rule, extra_)
    common.Report.finish = finish
    try:
        return base.run_state_property(
            PROP, LEVEL, state_fn, tier, seed, thorough_full=(0, 1), which=base.NO_LONG, reduced=base.REDUCED_LIGHT, params=params, flavours=(0, 1, 2, 4, 5),
            vacuity={'states_reciprocal': 10, 'states_multi_run': 10, 'states_selfloop': 5}, sample_fn=samples,
            assumptions=['files are written to a private scratch directory (/dev/shm or the system temp dir) removed at exit',
                         'encodings are ASCII-compatible (utf-8, latin-1, ascii); non-ASCII ids only with the first two'],
            rule='BFS over add_* histories, removal enabled, both classes, int / str / non-ASCII str ids; every distinct state x '
                 '(delimiter x encoding x target) — the full 4x3x5 product on states of depth <= 1, its diagonal (every target once) on deeper '
                 'states: decoded bytes == exactly one terminated row u<d>v<d>t per (interaction, instant present), orientation exact on '
                 'directed graphs; file objects stay open and positioned after the rows; read_snapshots (path and file object) with matching '
                 'arguments gives the same has_interaction matrix and canonical timelines; plus every chronological sequence of <= 2 three-/'
                 'four-column rows over the span menu through parse_snapshots vs the union-of-spans model; evaluations = files written + row '
                 'sequences parsed; non-trivial = state with >= 2 pairs or a multi-run timeline')
    finally:
        common.Report.finish = orig_finish


def replay(case):
    if 'big' in case:
        iocommon.scratch()
        rep = common.Report(PROP, 'quick', 0, LEVEL)
        big_files(rep, [])
        return [v for v, c in rep.vclasses.values()]
    if 'rows' in case:
        rep = common.Report(PROP, 'quick', 0, LEVEL)
        four_column_rows(rep, [])
        return [v for v, c in rep.vclasses.values()]
    return base.replay_state_property(PROP, state_fn, case)
