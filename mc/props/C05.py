"""C05 — the interaction stream is a chronological, faithful event log of presence."""
from .. import oracles
from . import base

PROP = 'C05'
LEVEL = 'model_checking'


def state_fn(conf, hist, G, M):
    ctx = oracles.presence_ctx(G, conf)
    trip = oracles.stream(G, conf, ctx, d5=M.d5_runs())
    st = list(G.stream_interactions())
    nruns = [len(oracles.runs_of(s)) for s in ctx[3].values()]
    cnt = {'evaluations': 1,
           'nontrivial': 1 if any(ev[2] == '-' for ev in st) or any(n >= 2 for n in nruns) else 0,
           'states_with_minus': 1 if any(ev[2] == '-' for ev in st) else 0,
           'states_shared_event_instant': 1 if len(set(ev[3] for ev in st)) < len(st) else 0}
    return trip, cnt, {'streams': [repr(st)]}


def run(tier, seed):
    return base.run_state_property(
        PROP, LEVEL, state_fn, tier, seed, pure=True, vacuity={'states_with_minus': 10, 'states_shared_event_instant': 10},
        sample_fn=base.default_samples,
        rule="BFS over add_* histories (U1,U2,TWO,U3), both classes, removal enabled; in every distinct state the stream "
             "is checked: non-decreasing t, no repeated (pair,op,t), '+' exactly at run starts, every '-' at a run end+1, "
             "every run longer than one instant closed, replay of the events reconstructs has_interaction; "
             "non-trivial = the stream has a '-' or a pair has >= 2 runs")


def replay(case):
    return base.replay_state_property(PROP, state_fn, case)
