"""C02 — every snapshot and flattened query projects the one presence relation."""
import networkx as nx
from .. import universes as U
from .. import oracles, projection, observe
from . import base

PROP = 'C02'
LEVEL = 'model_checking'


def state_fn(conf, hist, G, M):
    fl = U.FLAVOURS[conf['flavour']]
    nodes_all, times, P, PP = oracles.presence_ctx(G, conf)
    known = [n for n in G.nodes()]
    trip = []
    evals = 0
    if known:
        for t in [None] + list(times):
            r = projection.check(G, conf, nodes_all, P, t, known, fl['z'])
            evals += 1
            trip += r
        if conf['removal']:
            trip += projection.get_node_snapshots(G, conf, nodes_all, P, known)
    # collapse repeats of the same discrepancy class at different instants
    seen = set()
    out = []
    for sub, sig, det in trip:
        k = repr(sorted(sig.items()))
        if k not in seen:
            seen.add(k)
            out.append((sub, sig, det))
    directed = conf['cls'] == 'DynDiGraph'
    recip = directed and any((k[1], k[0]) in PP and k[0] != k[1] for k in PP)
    loops = any(k[0] == k[1] for k in PP)
    iso = any(not any(n in k for k in PP) for n in known)
    cnt = {'evaluations': evals, 'nontrivial': 1 if len(PP) >= 2 or recip or loops or iso else 0,
           'states_reciprocal': 1 if recip else 0, 'states_selfloop': 1 if loops else 0, 'states_isolated_node': 1 if iso else 0}
    return out, cnt, {}


def run(tier, seed):
    params = {'u1_depth': 3, 'two_depth': 2} if tier == 'quick' else {'u1_depth': 4, 'u2_depth': 2, 'two_depth': 3, 'u3_depth': 2, 'uc_depth': 5}
    return base.run_state_property(
        PROP, LEVEL, state_fn, tier, seed, thorough_full=(0, 1), pure=True, which=base.NO_LONG, reduced=base.REDUCED_LIGHT, acc_reduced=True, modes=(True, False), params=params,
        vacuity={'states_reciprocal': 10, 'states_selfloop': 10, 'states_isolated_node': 10},
        sample_fn=base.default_samples,
        rule='BFS over add_*/add_node histories (U1,U2,TWO,U3), both classes, both removal modes; every distinct state x every '
             'probe instant and t=None x every query entry point (methods + dn.* helpers) x nbunch menu (None, each node, list, '
             'list with unknown node, unknown only, empty) compared with the static networkx graph induced by has_interaction; '
             'evaluations = (state, t) pairs; non-trivial = >= 2 pairs, a reciprocal pair, a self-loop or an isolated node')


def replay(case):
    return base.replay_state_property(PROP, state_fn, case)
