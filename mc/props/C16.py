"""C16 — directed/undirected conversion preserves presence and isolates the copy."""
import copy
from .. import universes as U
from .. import oracles, projection, observe
from ..common import Violation, match_known, load_known
from . import base

PROP = 'C16'
LEVEL = 'model_checking'
_KNOWN = []


def _mutate_nested(H):
    """mutate every nested mutable value reachable from H's node and graph attributes"""
    n = 0

    def walk(x):
        nonlocal n
        if isinstance(x, dict):
            for v in list(x.values()):
                walk(v)
            x['__mutated__'] = 1
            n += 1
        elif isinstance(x, list):
            for v in x:
                walk(v)
            x.append('__mutated__')
            n += 1
    for _, d in H.nodes(data=True):
        walk(d)
    walk(H.graph)
    return n


def check_conv(conf, G, name, kw, nodes, times, P):
    res = []
    fl = U.FLAVOURS[conf['flavour']]
    directed_src = G.is_directed()

    def bad(kind, detail, **feat):
        sig = {'kind': kind, 'conv': name}
        sig.update(feat)
        res.append(('conversion', sig, detail))

    G.graph['meta'] = {'k': [1, 2], 'name': 'g'}
    G.graph['edge_removal'] = 'no'          # attribute names that are also constructor parameters
    G.graph['data'] = 'survey'
    before = observe.snapshot(G, conf, times)
    try:
        H = getattr(G, kw[0])(*kw[1]) if isinstance(kw[1], tuple) else getattr(G, kw[0])(**kw[1])
    except Exception as ex:
        bad('raises', {'exc': type(ex).__name__}, exc=type(ex).__name__)
        return res
    want_cls = 'DynGraph' if directed_src else 'DynDiGraph'
    if type(H).__name__ != want_cls:
        bad('class', {'got': type(H).__name__})
        return res
    if observe.snapshot(G, conf, times) != before:
        bad('source-changed-by-call', {})
    htimes = sorted(set(times) | set(observe.probe_times(H, conf)))
    hnodes = list(nodes) + [n for n in H.nodes() if n not in nodes]
    PH = observe.presence(H, hnodes, htimes)
    if directed_src:
        if (kw[1] == (True,)) or (isinstance(kw[1], dict) and kw[1].get('reciprocal')):
            want = set((u, v, t) for (u, v, t) in P if (v, u, t) in P)
        else:
            want = set(P) | set((v, u, t) for (u, v, t) in P)
    else:
        want = set(P)
    if PH != want:
        missing = sorted(want - PH, key=repr)
        extra = sorted(PH - want, key=repr)
        feat = {'missing': bool(missing), 'extra': bool(extra)}
        if missing and not extra:
            feat['reverse_present'] = all((v, u, t) in PH for (u, v, t) in missing)
        bad('presence', {'missing': repr(missing[:6]), 'extra': repr(extra[:6])}, **feat)
    if sorted(H.nodes(), key=repr) != sorted(G.nodes(), key=repr):
        bad('nodes', {'got': repr(sorted(H.nodes(), key=repr)), 'expected': repr(sorted(G.nodes(), key=repr))})
    else:
        gd = dict(G.nodes(data=True))
        for n, d in H.nodes(data=True):
            if d != gd[n]:
                bad('node-attributes', {'node': repr(n), 'got': repr(d), 'in G': repr(gd[n])})
                break
    if H.graph != G.graph:
        bad('graph-attributes', {'got': repr(H.graph), 'in G': repr(G.graph)})
    for sub, sig, det in oracles.well_formed(H, conf, name):
        bad('result-' + sig['kind'], det, oracle=sub)
    known = list(H.nodes())
    if known:
        for sub, sig, det in projection.check(H, conf, hnodes, PH, None, known, fl['z']):
            v = Violation('C02', sub, dict(sig, cls=type(H).__name__, mode='rm'), {}, det)
            if match_known(v, _KNOWN) is None:
                bad('result-projection', det, entry=sig.get('entry'), pkind=sig.get('kind'))
    # isolation: mutate everything nested in the result; G must not notice
    ref = copy.deepcopy(dict(G.nodes(data=True))), copy.deepcopy(G.graph)
    muts = _mutate_nested(H)
    # ... and grow the result: prolong the last run of every pair (adjacent point, overlapping interval),
    # re-add, add a brand-new pair and node -- none of it may show in G
    hi = max(htimes) + 1
    for it in list(H.out_interactions() if H.is_directed() else H.interactions()):
        u, v, tl = it[0], it[1], it[2].get('t') or []
        if not tl:
            continue
        end = tl[-1][1]
        for (t, e) in ((end + 1, None), (end, end + 4), (end + 2, None)):
            try:
                H.add_interaction(u, v, t) if e is None else H.add_interaction(u, v, t, e)
                muts += 1
            except Exception:
                pass
    try:
        H.add_interaction(fl['z'], fl['ids'][0], hi)
        H.add_node(('fresh', 1), k=[1])
    except Exception:
        pass
    now = dict(G.nodes(data=True)), G.graph
    if now[0] != ref[0] or now[1] != ref[1]:
        bad('aliasing', {'G node attrs': repr(now[0])[:300], 'G.graph': repr(now[1])[:200]},
            part='graph' if now[1] != ref[1] else 'node')
    if observe.snapshot(G, conf, times) != before:
        bad('source-changed-by-mutating-result', {})
    return res, muts


def state_fn(conf, hist, G, M):
    global _KNOWN
    if not _KNOWN:
        _KNOWN = load_known()
    nodes, times, P, PP = oracles.presence_ctx(G, conf)
    trip = []
    muts = 0
    if conf['cls'] == 'DynDiGraph':
        convs = [('to_undirected', ('to_undirected', {})), ('to_undirected(reciprocal=False)', ('to_undirected', {'reciprocal': False})),
                 ('to_undirected(reciprocal=True)', ('to_undirected', {'reciprocal': True})),
                 ('to_undirected(True)', ('to_undirected', (True,)))]
    else:
        convs = [('to_directed', ('to_directed', {}))]
    for name, kw in convs:
        r = check_conv(conf, G, name, kw, nodes, times, P)
        if isinstance(r, tuple):
            trip += r[0]
            muts += r[1]
        else:
            trip += r
    recip = conf['cls'] == 'DynDiGraph' and any((k[1], k[0]) in PP and k[0] != k[1] for k in PP)
    recip_diff = recip and any((k[1], k[0]) in PP and PP[k] != PP[(k[1], k[0])] and PP[k] & PP[(k[1], k[0])] for k in PP)
    cnt = {'evaluations': len(convs), 'nontrivial': 1 if (recip or len(PP) >= 2 or muts > 1) else 0,
           'states_reciprocal': 1 if recip else 0, 'states_reciprocal_different_overlapping': 1 if recip_diff else 0,
           'states_selfloop': 1 if any(k[0] == k[1] for k in PP) else 0, 'nested_values_mutated': muts}
    return trip, cnt, {}


def run(tier, seed):
    params = {'u1_depth': 2, 'u2_depth': 2, 'two_depth': 3, 'u3_depth': 1} if tier == 'quick' else {'u1_depth': 4, 'u2_depth': 2, 'two_depth': 3, 'u3_depth': 2, 'uc_depth': 5}
    return base.run_state_property(
        PROP, LEVEL, state_fn, tier, seed, thorough_full=(0, 1), which=base.NO_LONG, reduced=base.REDUCED_LIGHT, params=params,
        vacuity={'states_reciprocal': 10, 'states_reciprocal_different_overlapping': 5, 'states_selfloop': 10,
                 'nested_values_mutated': 50},
        sample_fn=base.default_samples,
        rule='BFS over add_*/add_node histories, removal enabled; every distinct DynDiGraph state: to_undirected() with reciprocal '
             'omitted/False/True; every distinct DynGraph state: to_directed(); oracle: class, has_interaction(H) == union / intersection / '
             'both orientations of has_interaction(G), all nodes kept, attribute content equal, C03/C04/C05 + C02(t=None) on H, G '
             'unchanged by the call and by mutating every nested mutable attribute value of H; evaluations = conversions performed; '
             'non-trivial = reciprocal pair, >= 2 pairs or nested attributes present')


def replay(case):
    return base.replay_state_property(PROP, state_fn, case)
