#!/usr/bin/env python3
"""tools/import_agent2.py Cxx N 'what' 'needs' [checks]  — wave 5: copy into seeded/Cxx-w5mN"""
import json, os, shutil, sys
pid, n, what, needs = sys.argv[1:5]
checks = sys.argv[5].split(',') if len(sys.argv) > 5 else [pid]
src = '/tmp/wt/%s' % pid
dst = os.path.join(os.path.dirname(os.path.dirname(os.path.abspath(__file__))), 'seeded', '%s-w5m%s' % (pid, n))
os.makedirs(dst, exist_ok=True)
shutil.copy(os.path.join(src, 'mutation%s.diff' % n), os.path.join(dst, 'patch.diff'))
shutil.copy(os.path.join(src, 'demo%s.py' % n), os.path.join(dst, 'demo.py'))
json.dump({'id': '%s-w5m%s' % (pid, n), 'origin': 'independent sub-agent, fifth round: given only the property text and a scratch worktree; asked for a change that needs a multi-step sequence, an interplay of two features, an unusual legitimate input or two cooperating sites',
           'property': pid, 'what': what, 'needs': needs, 'checks_expected': checks}, open(os.path.join(dst, 'meta.json'), 'w'), indent=1)
print(dst)
