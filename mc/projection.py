"""C02 oracle: every snapshot / flattened query projects the one presence relation.

For a state G and an instant t (or t=None) the static graph S is built from G's own
has_interaction answers; every query entry point is compared with what S gives (DESIGN.md §3).
Returns (sub, sig, detail) triples; sig carries the structural features used to recognise the
known findings D6 (flattened directed listing drops one direction of a reciprocal pair), D10
(size() halves undirected self-loops; dn.density(G,t) is 0) and D18 (non_interactions on a
directed graph yields one orientation per unordered pair).
"""
import collections
import networkx as nx
import dynetx as dn
from . import observe


class _OneShot:
    """an nbunch that can be iterated only once per call (a generator), as the docstrings allow"""

    def __init__(self, items):
        self.items = list(dict.fromkeys(items))

    def fresh(self):
        return (x for x in self.items)


class _Container:
    """an nbunch given as a set or a dict (any container of nodes is allowed)"""

    def __init__(self, c):
        self.c = c
        self.items = list(c)

    def fresh(self):
        return type(self.c)(self.c)


def static_graph(G, nodes_all, P, t):
    S = nx.DiGraph() if G.is_directed() else nx.Graph()
    for n, d in G.nodes(data=True):
        S.add_node(n)
        S.nodes[n].update(d)        # attribute keys need not be identifiers
    if t is None:
        for u in nodes_all:
            for v in nodes_all:
                if G.has_interaction(u, v):
                    S.add_edge(u, v)
    else:
        for (u, v, tt) in P:
            if tt == t:
                S.add_edge(u, v)
    return S


def _pairs(G, items):
    """multiset of pair keys from a list of interaction tuples (first two components)"""
    c = collections.Counter()
    for it in items:
        c[observe.pairkey(G, it[0], it[1])] += 1
    return c


def _edges_for(S, nb, mode):
    """expected edge multiset for nbunch nb (list of known nodes or None)"""
    directed = S.is_directed()
    c = collections.Counter()
    if nb is None:
        es = S.edges()
    elif mode == 'in':
        es = S.in_edges(nb)
    else:
        es = S.edges(nb)
    for (u, v) in es:
        k = (u, v) if directed else tuple(sorted((u, v), key=repr))
        c[k] = 1
    return c


def check(G, conf, nodes_all, P, t, known_nodes, z):
    """all entry points at one instant t (None = flattened)"""
    res = []
    directed = G.is_directed()
    S = static_graph(G, nodes_all, P, t)
    tg = t is not None
    kw = {} if t is None else {'t': t}

    def bad(entry, kind, got, want, **feat):
        sig = {'entry': entry, 'kind': kind, 't_given': tg}
        sig.update(feat)
        res.append(('projection', sig, {'entry': entry, 't': t, 'got': repr(got)[:400], 'static graph gives': repr(want)[:400]}))

    def guarded(entry, fn):
        try:
            return True, fn()
        except Exception as ex:
            bad(entry, 'raises', type(ex).__name__, 'a value', exc=type(ex).__name__)
            return False, None

    nb_menu = [('none', None)] + [('single', n) for n in known_nodes] + \
              [('list', list(dict.fromkeys([known_nodes[0], known_nodes[-1]]))), ('list+unknown', [known_nodes[0], z]),
               ('unknown-only', [z]), ('empty', []), ('iterator', _OneShot([known_nodes[-1], z, known_nodes[0]])),
               ('set', _Container({known_nodes[0], z})), ('dict', _Container({known_nodes[-1]: 1, z: 2}))]

    def nb_known(nb):
        if nb is None:
            return None
        if isinstance(nb, (_OneShot, _Container)):
            return list(dict.fromkeys(n for n in nb.items if n in S))
        if isinstance(nb, list):
            return [n for n in nb if n in S]
        return [nb]

    def arg(nb):
        return nb.fresh() if isinstance(nb, (_OneShot, _Container)) else nb

    # ---- interaction listings
    listing = [('interactions', lambda nb: G.interactions(nb, **kw), 'out'),
               ('interactions(nbunch, t) positional', lambda nb: G.interactions(nb, t), 'out'),
               ('interactions_iter', lambda nb: list(G.interactions_iter(nb, **kw)), 'out'),
               ('dn.interactions', lambda nb: dn.interactions(G, nb, **kw), 'out')]
    if directed:
        listing += [('out_interactions', lambda nb: G.out_interactions(nb, **kw), 'out'),
                    ('out_interactions_iter', lambda nb: list(G.out_interactions_iter(nb, **kw)), 'out'),
                    ('in_interactions', lambda nb: G.in_interactions(nb, **kw), 'in'),
                    ('in_interactions_iter', lambda nb: list(G.in_interactions_iter(nb, **kw)), 'in')]
    for entry, fn, mode in listing:
        for nbk, nb in nb_menu:
            ok, got = guarded(entry, lambda: fn(arg(nb)))
            if not ok:
                continue
            gotc = _pairs(G, got)
            want = _edges_for(S, nb_known(nb), mode)
            if gotc != want:
                dup = any(c > 1 for c in gotc.values())
                missing = [k for k in want if k not in gotc]
                extra = [k for k in gotc if k not in want]
                feat = {'nbunch': nbk}
                if dup:
                    kind = 'listed-twice'
                elif extra and directed and all((k[1], k[0]) in want for k in extra) and len(extra) == len(missing):
                    kind = 'orientation-reversed'
                elif extra:
                    kind = 'extra'
                else:
                    kind = 'missing'
                    feat['reverse_listed'] = bool(directed and all((k[1], k[0]) in gotc for k in missing))
                bad(entry, kind, sorted(gotc.elements(), key=repr), sorted(want, key=repr), **feat)

    # ---- neighbourhoods
    nbr = [('neighbors', lambda n: G.neighbors(n, **kw), 'succ'), ('neighbors(n, t) positional', lambda n: G.neighbors(n, t), 'succ'), ('neighbors_iter', lambda n: list(G.neighbors_iter(n, **kw)), 'succ'),
           ('dn.neighbors', lambda n: list(dn.neighbors(G, n, **kw)), 'succ')]
    if directed:
        nbr += [('successors', lambda n: G.successors(n, **kw), 'succ'), ('successors_iter', lambda n: list(G.successors_iter(n, **kw)), 'succ'),
                ('predecessors', lambda n: G.predecessors(n, **kw), 'pred'),
                ('predecessors_iter', lambda n: list(G.predecessors_iter(n, **kw)), 'pred')]
    for entry, fn, mode in nbr:
        for n in known_nodes:
            ok, got = guarded(entry, lambda: fn(n))
            if not ok:
                continue
            want = sorted(S.predecessors(n) if mode == 'pred' else S.neighbors(n), key=repr)
            if sorted(got, key=repr) != want:
                bad(entry, 'neighbour-set', got, want)
    for n in known_nodes:
        ok, got = guarded('dn.all_neighbors', lambda: list(dn.all_neighbors(G, n, **kw)))
        if ok and sorted(got, key=repr) != sorted(nx.all_neighbors(S, n), key=repr):
            bad('dn.all_neighbors', 'neighbour-set', got, sorted(nx.all_neighbors(S, n), key=repr))
        ok, got = guarded('dn.non_neighbors', lambda: list(dn.non_neighbors(G, n, **kw)))
        if ok:
            w1 = set(S) - set(S[n]) - {n}
            w2 = w1 - set(S.predecessors(n)) if directed else w1
            if len(got) != len(set(got)) or (set(got) != w1 and set(got) != w2):
                bad('dn.non_neighbors', 'neighbour-set', got, sorted(w2, key=repr))
    if directed:
        for u in known_nodes:
            for v in known_nodes + [z]:
                for entry, fn, want in (('has_successor', lambda: G.has_successor(u, v, **kw), S.has_edge(u, v)),
                                        ('has_predecessor', lambda: G.has_predecessor(u, v, **kw), S.has_edge(v, u))):
                    ok, got = guarded(entry, fn)
                    if ok and bool(got) != bool(want):
                        bad(entry, 'boolean', got, want)

    # ---- degrees (undirected self-loop: 1 or 2 accepted, §3.4)
    def deg_ok(n, got, kind):
        if kind == 'deg':
            want = S.degree(n)
        elif kind == 'in':
            want = S.in_degree(n)
        else:
            want = S.out_degree(n)
        if got == want:
            return True
        if not directed and S.has_edge(n, n) and got == want - 1:
            return True
        return False

    degs = [('degree', lambda nb: G.degree(nb, **kw), 'deg'), ('degree(nbunch, t) positional', lambda nb: G.degree(nb, t), 'deg'), ('degree_iter', lambda nb: dict(G.degree_iter(nb, **kw)), 'deg'),
            ('dn.degree', lambda nb: dn.degree(G, nb, **kw), 'deg')]
    if directed:
        degs += [('in_degree', lambda nb: G.in_degree(nb, **kw), 'in'), ('in_degree_iter', lambda nb: dict(G.in_degree_iter(nb, **kw)), 'in'),
                 ('out_degree', lambda nb: G.out_degree(nb, **kw), 'out'), ('out_degree_iter', lambda nb: dict(G.out_degree_iter(nb, **kw)), 'out')]
    for entry, fn, kind in degs:
        for nbk, nb in nb_menu:
            ok, got = guarded(entry, lambda: fn(arg(nb)))
            if not ok:
                continue
            if nbk == 'single' and not entry.endswith('_iter'):
                if not (isinstance(got, int) and deg_ok(nb, got, kind)):
                    bad(entry, 'degree-value', got, 'degree of %r' % (nb,), nbunch=nbk)
                continue
            exp_nodes = list(S) if nb is None else nb_known(nb)
            if not isinstance(got, dict) or sorted(got, key=repr) != sorted(exp_nodes, key=repr):
                bad(entry, 'degree-keys', got, exp_nodes, nbunch=nbk)
            elif not all(deg_ok(n, d, kind) for n, d in got.items()):
                bad(entry, 'degree-value', got, dict(S.degree()) if kind == 'deg' else None, nbunch=nbk)

    # ---- nodes
    want_nodes = sorted(S, key=repr) if t is None else sorted((n for n in S if S.degree(n) > 0), key=repr)
    for entry, fn in (('nodes', lambda: G.nodes(**kw)), ('nodes_iter', lambda: list(G.nodes_iter(**kw))), ('dn.nodes', lambda: dn.nodes(G, **kw)),
                      ('nodes(t) positional', lambda: G.nodes(t)), ('nodes_iter(data=True)', lambda: list(G.nodes_iter(data=True, **kw))),
                      ('dn.nodes(G, t) positional', lambda: dn.nodes(G, t))):
        ok, got = guarded(entry, fn)
        if ok and sorted(got, key=repr) != want_nodes:
            bad(entry, 'node-set', got, want_nodes)
    ok, got = guarded('nodes(data)', lambda: G.nodes(data=True, **kw))
    if ok:
        wd = sorted(((repr(n), repr(sorted(S.nodes[n].items(), key=repr))) for n in want_nodes))
        try:
            gd = sorted(((repr(n), repr(sorted(d.items(), key=repr))) for n, d in got))
        except Exception:
            gd = None
        if gd != wd:
            bad('nodes(data)', 'node-data', got, wd)
    for n in known_nodes + [z]:
        ok, got = guarded('has_node', lambda: G.has_node(n, **kw))
        if ok and bool(got) != (n in want_nodes):
            bad('has_node', 'boolean', got, n in want_nodes)
    ok, got = guarded('has_node(unhashable)', lambda: G.has_node([known_nodes[0]], **kw) if t is None else False)
    if ok and got is not False:
        bad('has_node(unhashable)', 'boolean', got, False)
    if t is None:
        ok, got = guarded('dn.is_directed', lambda: dn.is_directed(G))
        if ok and got is not directed:
            bad('dn.is_directed', 'boolean', got, directed)
    cnts = [('number_of_nodes', lambda: G.number_of_nodes(**kw)), ('number_of_nodes(t) positional', lambda: G.number_of_nodes(t)), ('dn.number_of_nodes', lambda: dn.number_of_nodes(G, **kw))]
    if not directed:
        cnts.append(('order', lambda: G.order(**kw)))
    for entry, fn in cnts:
        ok, got = guarded(entry, fn)
        if ok and got != len(want_nodes):
            bad(entry, 'count', got, len(want_nodes))

    # ---- numbers of interactions
    m = S.number_of_edges()
    loops = nx.number_of_selfloops(S)
    for entry, fn in (('number_of_interactions', lambda: G.number_of_interactions(**kw)), ('size', lambda: G.size(**kw)), ('size', lambda: G.size(t)),
                      ('dn.number_of_interactions', lambda: dn.number_of_interactions(G, **kw))):
        ok, got = guarded(entry, fn)
        if ok and got != m:
            halved = (not directed) and loops > 0 and got == int((2 * m - loops) / 2)
            bad(entry, 'count', got, m, selfloop_halving=halved)
    for u in known_nodes:
        for v in known_nodes:
            ok, got = guarded('number_of_interactions(u,v)', lambda: G.number_of_interactions(u, v, **kw))
            if ok and got != (1 if S.has_edge(u, v) else 0):
                bad('number_of_interactions(u,v)', 'count', got, 1 if S.has_edge(u, v) else 0, none=got is None)
                break
        else:
            continue
        break

    # ---- density, histogram, emptiness, non_interactions
    n = len(want_nodes)
    want_d = 0 if (m == 0 or n <= 1) else (m / (n * (n - 1))) * (1 if directed else 2)
    ok, got = guarded('dn.density', lambda: dn.density(G, **kw))
    if ok and abs(float(got) - want_d) > 1e-12:
        via_halving = (not directed) and loops > 0 and not tg and n > 1 and \
            abs(float(got) - (int((2 * m - loops) / 2) / (n * (n - 1))) * 2) < 1e-12
        bad('dn.density', 'value', got, want_d, zero=(got == 0), selfloop_halving=via_halving)
    if len(S) > 0:
        ok, got = guarded('dn.degree_histogram', lambda: dn.degree_histogram(G, **kw))
        if ok:
            w2 = nx.degree_histogram(S)
            c1 = collections.Counter((S.degree(x) - (1 if (not directed and S.has_edge(x, x)) else 0)) for x in S)
            w1 = [c1.get(i, 0) for i in range(max(c1) + 1)]
            if list(got) != w2 and list(got) != w1:
                bad('dn.degree_histogram', 'value', got, w2)
    if t is None:
        ok, got = guarded('dn.is_empty', lambda: dn.is_empty(G))
        if ok and bool(got) != (m == 0):
            bad('dn.is_empty', 'boolean', got, m == 0)
    ok, got = guarded('dn.non_interactions', lambda: list(dn.non_interactions(G, **kw)))
    if ok:
        if directed:
            want = set(nx.non_edges(S))
            gs = set(got)
            if gs != want or len(got) != len(gs):
                one_orientation = (len(got) == len(gs) and gs <= want and
                                   all((v, u) not in gs for (u, v) in gs) and
                                   all(((u, v) in gs) != ((v, u) in gs) for (u, v) in want if (v, u) in want))
                bad('dn.non_interactions', 'pair-set', sorted(gs, key=repr), sorted(want, key=repr),
                    one_orientation_per_pair=bool(one_orientation), all_listed_are_non_edges=bool(gs <= want))
        else:
            want = set(tuple(sorted(p, key=repr)) for p in nx.non_edges(S))
            gs = [tuple(sorted(p, key=repr)) for p in got]
            if set(gs) != want or len(gs) != len(set(gs)):
                bad('dn.non_interactions', 'pair-set', sorted(set(gs), key=repr), sorted(want, key=repr),
                    ignores_t=bool(tg and set(gs) == set(tuple(sorted(p, key=repr)) for p in
                                                       nx.non_edges(static_graph(G, nodes_all, P, None)))))
    return res


def get_node_snapshots(G, conf, nodes_all, P, known_nodes):
    res = []
    ids = sorted(set(tt for (_, _, tt) in P))        # the inhabited instants, not the id list the graph reports
    for n in known_nodes:
        want = [t for t in ids if any((u == n or v == n) and tt == t for (u, v, tt) in P)]
        try:
            got = G.get_node_snapshots(n)
        except Exception as ex:
            res.append(('projection', {'entry': 'get_node_snapshots', 'kind': 'raises', 'exc': type(ex).__name__, 't_given': False},
                        {'node': repr(n), 'expected': want}))
            break
        if not isinstance(got, list) or sorted(got) != want:
            res.append(('projection', {'entry': 'get_node_snapshots', 'kind': 'id-list', 't_given': False,
                                       'scalar': not isinstance(got, list)},
                        {'node': repr(n), 'got': repr(got), 'expected': want}))
            break
    return res
