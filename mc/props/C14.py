"""C14 — annotate_paths selects exactly the optimal paths for each criterion (exhaustive input space)."""
import collections
from .. import graphs, common
from ..common import Violation

PROP = 'C14'
LEVEL = 'exploration'
S, D, M1, M2 = 's', 'd', 'm1', 'm2'
TMAX = 4


def symbols():
    """abstract paths (hops h, first time f, last time l), each concretised in two ways"""
    out = []
    for h in (1, 2, 3):
        for f in range(TMAX + 1):
            for l in range(f, TMAX + 1):
                if (h == 1 and l != f) or (h > 1 and l < f + h - 1):
                    continue
                if h == 1:
                    out.append(((S, D, f),))
                    out.append(((S, D, f),))                     # exact duplicate
                elif h == 2:
                    out.append(((S, M1, f), (M1, D, l)))
                    out.append(((S, M2, f), (M2, D, l)))
                else:
                    out.append(((S, M1, f), (M1, M2, f + 1), (M2, D, l)))
                    out.append(((S, M2, f), (M2, M1, l - 1), (M1, D, l)))
    # far-apart instants: durations around 2*10**5 that differ by one (a relative tolerance would call them equal)
    B = 200000
    out.append(((S, M1, 0), (M1, D, B)))
    out.append(((S, M2, 0), (M2, D, B + 1)))
    out.append(((S, M1, 1), (M1, D, B + 1)))
    out.append(((S, M1, 0), (M1, M2, 7), (M2, D, B)))
    out.append(((S, D, B),))
    return out


SYM = symbols()
_PREV = [None]


def decode(i, maxlen):
    n = len(SYM)
    for L in range(1, maxlen + 1):
        if i < n ** L:
            out = []
            for _ in range(L):
                i, r = divmod(i, n)
                out.append(r)
            return out
        i -= n ** L
    raise IndexError


def total(maxlen):
    return sum(len(SYM) ** L for L in range(1, maxlen + 1))


def expected(paths):
    hops = lambda p: len(p)
    dur = lambda p: p[-1][2] - p[0][2]
    arr = lambda p: p[-1][2]
    ps = [tuple(map(tuple, p)) for p in paths]
    mh = min(map(hops, ps))
    md = min(map(dur, ps))
    ma = min(map(arr, ps))
    sh = [p for p in ps if hops(p) == mh]
    fa = [p for p in ps if dur(p) == md]
    fo = [p for p in ps if arr(p) == ma]
    fs = [p for p in sh if dur(p) == min(map(dur, sh))]
    sf = [p for p in fa if hops(p) == min(map(hops, fa))]
    return {'shortest': sh, 'fastest': fa, 'foremost': fo, 'fastest_shortest': fs, 'shortest_fastest': sf}


def eval_input(i, data):
    import dynetx.algorithms as al
    maxlen = data['maxlen']
    idxs = decode(i, maxlen)
    cnt = collections.Counter()
    viols = []
    base = [SYM[j] for j in idxs]
    exp = expected(base)
    distinct = len(set(base))
    if distinct >= 2:
        cnt['nontrivial'] += 1
    if any(len(set(v)) >= 2 for v in exp.values()):
        cnt['inputs_with_ties'] += 1
    if len(base) != distinct:
        cnt['inputs_with_duplicates'] += 1
    for form in ('tuples', 'lists'):
        paths = [tuple(p) for p in base] if form == 'tuples' else [list(p) for p in base]
        cnt['calls'] += 1
        try:
            ann = al.annotate_paths(paths)
        except Exception as ex:
            viols.append(Violation(PROP, 'call', {'kind': 'raises', 'exc': type(ex).__name__, 'form': form}, {'index': i, 'maxlen': maxlen},
                                   {'paths': repr(paths), 'raised': repr(ex)[:200]}))
            continue
        # a result must stay what it was after the next call on other paths (no shared result object)
        snap = repr(ann)
        try:
            al.annotate_paths([((S, 'q', 90), ('q', D, 95))])
        except Exception:
            pass
        if repr(ann) != snap:
            viols.append(Violation(PROP, 'aliasing', {'kind': 'earlier-result-changed-by-a-later-call'},
                                   {'index': i, 'maxlen': maxlen}, {'first call': repr(paths)[:200], 'its result before': snap[:300], 'after a second call': repr(ann)[:300]}))
        inputs = collections.Counter(tuple(map(tuple, p)) for p in paths)
        for crit, want in exp.items():
            got = ann.get(crit)
            try:
                gt = [tuple(map(tuple, p)) for p in got]
            except Exception:
                viols.append(Violation(PROP, 'criterion', {'kind': 'result-shape', 'criterion': crit, 'form': form}, {'index': i, 'maxlen': maxlen},
                                       {'paths': repr(paths), 'got': repr(got)}))
                continue
            if set(gt) != set(want):
                kind = 'optimal-path-dropped' if set(want) - set(gt) else 'non-optimal-path-returned'
                viols.append(Violation(PROP, 'criterion', {'kind': kind, 'criterion': crit, 'form': form}, {'index': i, 'maxlen': maxlen},
                                       {'paths': repr(paths), 'criterion': crit, 'got': repr(sorted(set(gt))), 'expected': repr(sorted(set(want)))}))
            if any(p not in inputs for p in gt):
                viols.append(Violation(PROP, 'criterion', {'kind': 'returned-path-not-in-input', 'criterion': crit, 'form': form},
                                       {'index': i, 'maxlen': maxlen}, {'paths': repr(paths), 'got': repr(gt)}))
            if crit in ('shortest', 'fastest', 'foremost'):
                gc = collections.Counter(gt)
                if any(gc[p] > inputs[p] for p in gc):
                    viols.append(Violation(PROP, 'criterion', {'kind': 'multiplicity-exceeds-input', 'criterion': crit, 'form': form},
                                           {'index': i, 'maxlen': maxlen}, {'paths': repr(paths), 'got': repr(gt)}))
        for p in paths:
            if al.path_length(p) != len(p) or al.path_duration(p) != p[-1][2] - p[0][2]:
                viols.append(Violation(PROP, 'measure', {'kind': 'path-length-or-duration'}, {'index': i, 'maxlen': maxlen}, {'path': repr(p)}))
                break
    return viols[:4], cnt


CORE = None


def eval_core4(i, data):
    """lists of exactly 4 paths over a 14-symbol core (one concretisation of the shapes with first time <= 1, plus the far-apart ones)"""
    global CORE
    if CORE is None:
        CORE = [j for j, p in enumerate(SYM) if (p[0][2] <= 1 and p[-1][2] <= 3 and j % 2 == 0) or p[-1][2] > 100][:14]
    idx = []
    for _ in range(4):
        i, r = divmod(i, len(CORE))
        idx.append(CORE[r])
    n = len(SYM)
    flat = sum(n ** L for L in range(1, 4)) + sum(x * n ** k for k, x in enumerate(idx))
    return eval_input(flat, {'maxlen': 4})


def run(tier, seed):
    maxlen = 3 if tier == 'quick' else 4
    known = common.load_known()
    rep = common.Report(PROP, tier, seed, LEVEL)
    n = total(maxlen)
    tot, viols = graphs.run_indexed(eval_input, n, {'maxlen': maxlen})
    if tot['inputs'] != n:
        rep.broken.append('enumerated %d inputs, expected %d' % (tot['inputs'], n))
    if tier == 'quick':
        t4, v4 = graphs.run_indexed(eval_core4, 14 ** 4, {})
        tot.update(t4)
        viols += v4
        rep.cov['lists_of_4_over_core'] = t4['inputs']
    rep.add_violations([Violation(j['property'] if j['property'] != '?' else PROP, j['sub'], {k: v for k, v in j['sig'].items() if k != 'sub'},
                                  j['case'], j['detail']) for j in viols], known)
    rep.cov.update({'states': 0, 'transitions': 0, 'evaluations': tot['calls'], 'distinct_nontrivial': tot['nontrivial'],
                    'inputs': tot['inputs'], 'symbols': len(SYM), 'max_list_length': maxlen, 'counters': dict(tot)})
    for need in ('inputs_with_ties', 'inputs_with_duplicates'):
        if tot[need] < 100:
            rep.broken.append('%s = %d' % (need, tot[need]))
    for i in (0, len(SYM) + 5, len(SYM) + len(SYM) ** 2 + 1234):
        rep.sample({'input': repr([SYM[j] for j in decode(i, maxlen)]), 'expected': {k: repr(v) for k, v in expected([SYM[j] for j in decode(i, maxlen)]).items()}})
    rep.assumptions = ['annotate_paths is a pure function of its argument', 'paths connect one node pair (s,d) as the statement says']
    return rep.finish(known, 'all ordered lists of 1..%d paths drawn with repetition from %d concrete paths (21 abstract (hops,first,last) shapes x 2 '
                             'concretisations, single-hop shapes duplicated exactly), each given as list of tuples and as list of lists; each '
                             'criterion compared as a set with its direct definition, returned paths must be input elements, multiplicities '
                             'bounded by the input; distinct: each list is enumerated once; non-trivial = list with >= 2 distinct paths' % (maxlen, len(SYM)))


def replay(case):
    v, _ = eval_input(case['index'], {'maxlen': case['maxlen']})
    return v
