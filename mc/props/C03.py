"""C03 — timelines are canonical: on every reachable state and on every graph the library derives from it."""
import io
import json
import dynetx as dn
from dynetx.readwrite.json_graph import node_link_data, node_link_graph
from .. import universes as U
from .. import oracles, observe
from . import base

PROP = 'C03'
LEVEL = 'model_checking'


def derived_graphs(conf, G):
    """(name, thunk) for every constructor the statement lists"""
    o = U.FLAVOURS[conf['flavour']]['origin']
    rng = list(range(o - 1, o + conf['w'] + 1))
    if conf['w'] > 6:
        rng = rng[::3]        # wide-window universe (LONG): every third instant as a window bound
    out = []
    for a in rng:
        out.append(('time_slice(%d)' % a, lambda a=a: G.time_slice(a)))
        for b in rng:
            if b >= a:
                out.append(('time_slice(%d,%d)' % (a, b), lambda a=a, b=b: G.time_slice(a, b)))
    if G.is_directed():
        out.append(('to_undirected', lambda: G.to_undirected()))
        out.append(('to_undirected(reciprocal=True)', lambda: G.to_undirected(reciprocal=True)))
    else:
        out.append(('to_directed', lambda: G.to_directed()))
    nt = int if isinstance(U.FLAVOURS[conf['flavour']]['ids'][0], int) else (str if isinstance(U.FLAVOURS[conf['flavour']]['ids'][0], str) else None)
    if nt is not None:
        def rs():
            buf = io.BytesIO()
            dn.write_snapshots(G, buf)
            buf.seek(0)
            return dn.read_snapshots(buf, directed=G.is_directed(), nodetype=nt, timestamptype=int)

        def ri():
            buf = io.BytesIO()
            dn.write_interactions(G, buf)
            buf.seek(0)
            return dn.read_interactions(buf, directed=G.is_directed(), nodetype=nt, timestamptype=int)

        def js():
            return node_link_graph(json.loads(json.dumps(node_link_data(G))))
        out += [('read_snapshots(write_snapshots)', rs), ('read_interactions(write_interactions)', ri), ('node_link_graph(node_link_data)', js)]
    return out


def state_fn(conf, hist, G, M):
    ctx = oracles.presence_ctx(G, conf)
    trip = list(oracles.canonical(G, conf, ctx))
    nruns = [len(oracles.runs_of(s)) for s in ctx[3].values()]
    nder = 0
    seen = set()
    for name, thunk in derived_graphs(conf, G):
        # the window fan-out (~30 slices per state) only on states of depth <= 2; deeper states still get the
        # conversions and the three I/O round trips (C06 checks every slice of its own universes for well-formedness)
        if name.startswith('time_slice') and len(hist) > 2:
            continue
        if len(hist) > 4:
            break
        try:
            H = thunk()
        except Exception as ex:
            # whether the constructor may fail here is the business of C06/C09/C10/C11/C16; C03 speaks about what it returns
            continue
        nder += 1
        kind = name.split('(')[0]
        for sub, sig, det in oracles.canonical(H, conf, what=kind):
            k = (kind, sig['kind'])
            if k not in seen:
                seen.add(k)
                trip.append((sub, sig, dict(det, derived_by=name)))
    if nder:
        for sub, sig, det in oracles.canonical(G, conf, what='source-after-deriving'):
            trip.append((sub, sig, det))
    cnt = {'evaluations': 1 + nder, 'nontrivial': 1 if any(n >= 2 for n in nruns) or len(nruns) >= 2 else 0,
           'states_multi_run': 1 if any(n >= 2 for n in nruns) else 0, 'derived_graphs': nder}
    return trip, cnt, {'timelines': [repr(sorted((repr(k), sorted(v)) for k, v in ctx[3].items()))]}


def run(tier, seed):
    return base.run_state_property(
        PROP, LEVEL, state_fn, tier, seed, thorough_full=(0, 1), vacuity={'states_multi_run': 10, 'derived_graphs': 1000},
        sample_fn=base.default_samples,
        rule='BFS over add_* histories (U1,U2,TWO,U3), both classes, removal enabled; in every distinct state every timeline exposed by '
             'interactions()/in_/out_interactions() (all nodes as nbunch too) is checked: [s,e] pairs, s<=e, gaps >= 1 absent instant, union '
             '== has_interaction presence, both endpoints expose the same list; the same oracle on every graph derived from the state: '
             'time_slice for every window of the probe range, to_directed / to_undirected (both reciprocal values), '
             'read_snapshots(write_snapshots), read_interactions(write_interactions), node_link_graph(node_link_data) — and on the source '
             'again afterwards; evaluations = graphs checked; non-trivial = a pair with >= 2 runs or >= 2 pairs')


def replay(case):
    return base.replay_state_property(PROP, state_fn, case)
