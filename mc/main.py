"""./check entry point."""
import importlib
import json
import os
import sys

from . import common


def usage():
    print(__doc__)
    print(open(os.path.join(common.VERIF, 'check')).read())
    return 2


def main(argv):
    if os.environ.get('PYTHONHASHSEED') != '0':
        os.environ['PYTHONHASHSEED'] = '0'
        os.execve(sys.executable, [sys.executable, '-m', 'mc.main'] + argv, os.environ)
    if not argv:
        return usage()
    dn = common.bootstrap()
    if argv[0] == 'setup':
        import networkx, numpy, tqdm, decorator   # noqa: what the repository itself needs
        ok = common.validate_evidence.__name__ and os.path.exists(common.EVIDENCE_SCHEMA)
        print('setup: dynetx from %s, networkx %s, python %s, evidence schema %s'
              % (os.path.dirname(dn.__file__), networkx.__version__, sys.version.split()[0],
                 'found' if ok else 'MISSING'))
        import subprocess
        r = subprocess.run(['python3-vt', '-c', 'import jsonschema'], capture_output=True)
        print('setup: python3-vt jsonschema %s' % ('ok' if r.returncode == 0 else 'MISSING'))
        return 0 if ok and r.returncode == 0 else 2
    if argv[0] == 'replay':
        rec = json.load(open(argv[1]))
        mod = importlib.import_module('mc.props.' + rec['property'])
        viols = mod.replay(rec['case'])
        # determinism: a second replay must observe the same thing
        viols2 = mod.replay(rec['case'])
        if sorted(v.cls_key() for v in viols) != sorted(v.cls_key() for v in viols2):
            print('HARNESS-ERROR: two replays of %s observed different things' % argv[1])
            return 2
        # known findings that happen to live in the same state are not what this record is about
        known = common.load_known()
        viols = [v for v in viols if common.match_known(v, known) is None]
        exact = [v for v in viols if v.sub == rec['sub'] and all(v.sig.get(k) == val for k, val in rec['sig'].items())]
        same = exact or [v for v in viols if v.sub == rec['sub']] or viols
        if same:
            print('REPLAY FAILS property=%s sub=%s%s' % (rec['property'], rec['sub'], '' if exact else ' (another class of the same sub-oracle than the one recorded)'))
            for v in same[:5]:
                print('  sig=%s' % json.dumps(v.sig, sort_keys=True, default=repr))
                print('  %s' % json.dumps(v.detail, default=repr)[:800])
            for c in rec['case'].get('calls', []):
                print('    ' + c)
            return 1
        print('REPLAY PASSES property=%s (the recorded case no longer violates it)' % rec['property'])
        return 0
    prop = argv[0]
    tier = argv[1] if len(argv) > 1 else 'quick'
    from .props import base
    tier, seed = base.tier_seed(tier)
    try:
        mod = importlib.import_module('mc.props.' + prop)
    except ImportError as ex:
        print('HARNESS-ERROR: no check for %s (%r)' % (prop, ex))
        return 2
    return mod.run(tier, seed)


if __name__ == '__main__':
    try:
        rc = main(sys.argv[1:])
    except SystemExit:
        raise
    except BaseException:          # an uncaught exception is a harness error (exit 2), never a violation (exit 1)
        import traceback
        traceback.print_exc()
        print('HARNESS-ERROR: the check itself failed; nothing is reported about the property')
        rc = 2
    sys.exit(rc)
