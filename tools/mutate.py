#!/usr/bin/env python3
"""Evaluate one seeded change against the checks.

usage: tools/mutate.py <seeded/ID dir> [--checks C01,C05 | --all] [--tier quick] [--repo <scratch worktree>]

With --repo the patch is applied to that scratch worktree of /repo instead (several evaluations can then run in
parallel, /repo is never touched) and the checks are pointed at it with VERIF_REPO.

The directory holds patch.diff (applies to /repo with `git apply`), demo.py and meta.json.
Steps: /repo must be clean -> apply -> the repository's pinned suite must stay green -> demo must
fail -> run the checks (rc=1 + VIOLATION line = detected) -> revert -> demo must pass again.
Appends the outcome to <dir>/result.json.  /repo is always restored (git checkout -- .).
"""
import json
import os
import subprocess
import sys
import time

VERIF = os.path.dirname(os.path.dirname(os.path.abspath(__file__)))
ALL = ['C%02d' % i for i in range(1, 21)]


def sh(cmd, **kw):
    return subprocess.run(cmd, shell=isinstance(cmd, str), capture_output=True, text=True, **kw)


def main():
    d = os.path.abspath(sys.argv[1])
    args = sys.argv[2:]
    tier = 'quick'
    checks = None
    repo = '/repo'
    for i, a in enumerate(args):
        if a == '--checks':
            checks = args[i + 1].split(',')
        if a == '--all':
            checks = ALL
        if a == '--tier':
            tier = args[i + 1]
        if a == '--repo':
            repo = os.path.realpath(args[i + 1])
    meta = json.load(open(os.path.join(d, 'meta.json')))
    if checks is None:
        checks = meta.get('checks_expected') or [meta['property']]
    patch = os.path.join(d, 'patch.diff')
    demo = os.path.join(d, 'demo.py')
    if sh('git -C %s status --porcelain --untracked-files=no' % repo).stdout.strip():
        print('refusing: %s is not clean' % repo)
        return 2
    res = {'at': time.strftime('%Y-%m-%dT%H:%M:%S'), 'tier': tier, 'repo_head': sh('git -C %s rev-parse --short HEAD' % repo).stdout.strip(),
           'verif_head': sh('git -C %s rev-parse --short HEAD' % VERIF).stdout.strip()}
    env = dict(os.environ, PYTHONPATH=repo, PYTHONDONTWRITEBYTECODE='1', TQDM_DISABLE='1')
    cenv = dict(os.environ)
    if repo != '/repo':
        cenv['VERIF_REPO'] = repo
        res['repo'] = repo
    try:
        r = sh(['git', '-C', repo, 'apply', patch])
        if r.returncode != 0:
            print('patch does not apply:', r.stderr[-300:])
            return 2
        s = sh(['python3', os.path.join(VERIF, 'tools', 'run_suite.py'), repo])
        res['suite_green'] = s.returncode == 0
        res['suite'] = s.stdout.strip().split('\n')[0]
        dm = sh(['/venv/bin/python', demo], env=env, cwd='/tmp')
        res['demo_fails_with_patch'] = dm.returncode != 0
        res['checks'] = {}
        for c in checks:
            t0 = time.time()
            cr = sh([os.path.join(VERIF, 'check'), c, tier], cwd=VERIF, env=cenv)
            vl = [l for l in cr.stdout.split('\n') if l.startswith('VIOLATION')]
            first = ''
            lines = cr.stdout.split('\n')
            for i, l in enumerate(lines):
                if l.startswith('VIOLATION'):
                    first = ' | '.join(x.strip() for x in lines[i:i + 3])[:700]
                    break
            res['checks'][c] = {'rc': cr.returncode, 'violation_lines': len(vl), 'detected': cr.returncode == 1 and bool(vl),
                                'wall_s': round(time.time() - t0, 1), 'first': first}
            if cr.returncode not in (0, 1):
                res['checks'][c]['tail'] = (cr.stdout + cr.stderr)[-600:]
            # replay of the first violation must fail on the changed tree
            if vl:
                rp = vl[0].split('replay=')[1].strip()
                rr = sh([os.path.join(VERIF, 'check'), 'replay', rp], cwd=VERIF, env=cenv)
                res['checks'][c]['replay_fails_with_patch'] = rr.returncode == 1
                res['checks'][c]['replay_path'] = rp
    finally:
        sh('git -C %s checkout -- .' % repo)
    dm = sh(['/venv/bin/python', demo], env=env, cwd='/tmp')
    res['demo_passes_without_patch'] = dm.returncode == 0
    for c, info in res.get('checks', {}).items():
        if info.get('replay_path'):
            rr = sh([os.path.join(VERIF, 'check'), 'replay', info['replay_path']], cwd=VERIF, env=cenv)
            info['replay_passes_without_patch'] = rr.returncode == 0
    res['clean_after'] = not sh('git -C %s status --porcelain --untracked-files=no' % repo).stdout.strip()
    out = os.path.join(d, 'result.json')
    hist = json.load(open(out)) if os.path.exists(out) else []
    hist.append(res)
    json.dump(hist, open(out, 'w'), indent=1)
    det = [c for c, i in res['checks'].items() if i['detected']]
    print('%s: suite_green=%s demo_fails=%s demo_passes_clean=%s detected_by=%s' % (
        os.path.basename(d), res['suite_green'], res['demo_fails_with_patch'], res['demo_passes_without_patch'], det or 'NONE'))
    for c, i in res['checks'].items():
        print('   %s rc=%d %ss %s' % (c, i['rc'], i['wall_s'], i['first'][:300]))
    return 0


if __name__ == '__main__':
    sys.exit(main())
