#!/usr/bin/env python3
"""Run the repository's pinned suite in a tree (default /repo) and compare with BASELINE.json.
usage: run_suite.py [repo_dir]      exit 0 iff every stable_pass test passes"""
import json
import os
import subprocess
import sys
import tempfile
import xml.etree.ElementTree as ET

repo = sys.argv[1] if len(sys.argv) > 1 else '/repo'
base = json.load(open('/root/.vp/BASELINE.json'))
fd, junit = tempfile.mkstemp(suffix='.xml')
os.close(fd)
env = dict(os.environ, PYTHONDONTWRITEBYTECODE='1')
env.pop('DYNETX_VERIF', None)
r = subprocess.run(['/venv/bin/python', '-m', 'pytest', '-q', '-p', 'no:cacheprovider', '--timeout=900',
                    '--continue-on-collection-errors', '--junitxml=' + junit], cwd=repo, env=env,
                   capture_output=True, text=True)
passed = set()
failed = set()
for tc in ET.parse(junit).getroot().iter('testcase'):
    name = '%s::%s' % (tc.get('classname'), tc.get('name'))
    if any(ch.tag in ('failure', 'error') for ch in tc):
        failed.add(name)
    elif not any(ch.tag == 'skipped' for ch in tc):
        passed.add(name)
os.unlink(junit)
missing = [t for t in base['stable_pass'] if t not in passed]
extra = sorted(passed - set(base['stable_pass']))
print('passed=%d failed=%d stable_missing=%d newly_passing=%d' % (len(passed), len(failed), len(missing), len(extra)))
for t in missing:
    print('  STABLE TEST NOT PASSING:', t)
for t in extra:
    print('  now also passing:', t)
sys.exit(1 if missing else 0)
