#!/usr/bin/env python3
"""Re-evaluate every seeded change and every benign refactoring against the current checks WITHOUT touching /repo:
each patch is applied to a scratch copy (REGRESS_REPO, default $VP_RUN_REPO) and the checks run with VERIF_REPO pointing at it.

usage: REGRESS_REPO=<git worktree of /repo> tools/regress.py [ids...]
prints one line per entry; exit 0 iff every mutation is detected by at least one of its checks and every benign change is silent."""
import glob
import json
import os
import subprocess
import sys
import time

VERIF = os.path.dirname(os.path.dirname(os.path.abspath(__file__)))
REPO = os.environ.get('REGRESS_REPO') or os.environ.get('VP_RUN_REPO')
if not REPO or os.path.realpath(REPO) == '/repo':
    print('set REGRESS_REPO to a scratch worktree of /repo (not /repo itself)')
    sys.exit(2)


def sh(cmd, **kw):
    return subprocess.run(cmd, shell=isinstance(cmd, str), capture_output=True, text=True, **kw)


EXPECTED_MISS = {'C07-w2m2', 'C02-w3m2', 'C06-w3m2'}     # documented in DESIGN.md §10 as outside the bounds
only = set(sys.argv[1:])
bad = 0
env = dict(os.environ, VERIF_REPO=REPO)
for d in sorted(glob.glob(os.path.join(VERIF, 'seeded', '*'))):
    mp = os.path.join(d, 'meta.json')
    if not os.path.exists(mp):
        continue
    m = json.load(open(mp))
    if only and m['id'] not in only:
        continue
    benign = 'kind' in m
    sh(['git', '-C', REPO, 'checkout', '--', '.'])
    r = sh(['git', '-C', REPO, 'apply', os.path.join(d, 'patch.diff')])
    if r.returncode != 0:
        print('%s PATCH-DOES-NOT-APPLY %s' % (m['id'], r.stderr[-200:].strip()))
        bad += 1
        continue
    hist = json.load(open(os.path.join(d, 'result.json'))) if os.path.exists(os.path.join(d, 'result.json')) else []
    if benign:
        checks = m.get('checks') or []
    else:
        checks = list(dict.fromkeys([m['property']] + [c for r_ in hist for c, i in r_['checks'].items() if i.get('detected')]))
    res = {}
    t0 = time.time()
    for c in checks:
        cr = sh([os.path.join(VERIF, 'check'), c, 'quick'], cwd=VERIF, env=env)
        vl = [l for l in cr.stdout.split('\n') if l.startswith('VIOLATION')]
        res[c] = (cr.returncode, len(vl))
        if not benign and cr.returncode == 1 and vl:
            break              # one detecting check is enough
    sh(['git', '-C', REPO, 'checkout', '--', '.'])
    if benign:
        loud = [c for c, (rc, n) in res.items() if rc != 0 or n]
        ok = not loud
        print('%s benign %s %ds %s' % (m['id'], 'SILENT' if ok else 'ALARM:' + ','.join(loud), time.time() - t0, res), flush=True)
    else:
        det = [c for c, (rc, n) in res.items() if rc == 1 and n]
        err = [c for c, (rc, n) in res.items() if rc not in (0, 1)]
        ok = bool(det) or m['id'] in EXPECTED_MISS
        print('%s mutation %s %ds %s' % (m['id'], ('detected by ' + ','.join(det)) if det else ('NOT DETECTED' + (' (documented)' if m['id'] in EXPECTED_MISS else '')),
                                         time.time() - t0, res) + (' HARNESS-ERROR ' + ','.join(err) if err else ''), flush=True)
        if err:
            ok = False
    if not ok:
        bad += 1
print('regression: %d problem(s)' % bad)
sys.exit(1 if bad else 0)
