"""UG — temporal graphs as presence matrices (DESIGN.md §2.4): every subset of `pairs x T` with
at most k atoms, built through the public API, sharded over worker processes."""
import itertools
import multiprocessing as mp
import signal
import collections

from . import common
from .model import runs_of

GFLAV = {
    0: dict(name='int-T-2', ids=[0, 1, 2, 3, 4, 5], T0=-2),      # with 4 instants: -2..1 — two negative ids, 0 interior
    1: dict(name='str-T8', ids=['ab', 'a', 'b', 'abc', 'c', 'd'], T0=8),   # 8, 9, 10: ids change their number of digits; 'a' is a prefix of 'ab'
    2: dict(name='int-prefix-THUGE', ids=[10, 1, 100, 11, 2, 20], T0=2 ** 60),   # str(1) is a prefix of str(10); instants beyond 2**53 (and the small-int cache)
}


def gconf(cls, flavour, n_nodes, n_times, k, loops=False):
    return {'cls': cls, 'flavour': flavour, 'n': n_nodes, 'nt': n_times, 'k': k, 'loops': loops}


def gconf_name(c):
    return '%s/%s/n%d/T%d/k%d%s%s' % (c['cls'], GFLAV[c['flavour']]['name'], c['n'], c['nt'], c['k'], '/loops' if c['loops'] else '',
                                    '/one-contact-per-instant' if c.get('seq') else ('/template%d' % len(c['template']) if c.get('template') else ''))


def universe(c):
    fl = GFLAV[c['flavour']]
    nodes = fl['ids'][:c['n']]
    T = [fl['T0'] + i for i in range(c['nt'])]
    idx = range(c['n'])
    if c['cls'] == 'DynDiGraph':
        pairs = [(i, j) for i in idx for j in idx if i != j]
    else:
        pairs = [(i, j) for i in idx for j in idx if i < j]
    if c['loops']:
        pairs += [(i, i) for i in idx]
    atoms = [(i, j, t) for (i, j) in pairs for t in range(c['nt'])]
    return nodes, T, pairs, atoms


def count_graphs(c):
    nodes, T, pairs, atoms = universe(c)
    import math
    if c.get('seq'):
        return sum(len(pairs) ** L for L in range(0, min(c['k'], c['nt']) + 1))
    if c.get('template'):
        return 2 ** len(c['template'])
    return sum(math.comb(len(atoms), r) for r in range(0, min(c['k'], len(atoms)) + 1))


def iter_graphs(c):
    """all atom subsets with <= k atoms, smallest first (so the first counterexample is smallest)"""
    nodes, T, pairs, atoms = universe(c)
    if c.get('template'):
        # every subset of a fixed list of timed interactions (a hand-picked neighbourhood: 2**m graphs, complete)
        idx = [atoms.index(tuple(a)) for a in c['template']]
        for r in range(0, len(idx) + 1):
            for sub in itertools.combinations(idx, r):
                yield tuple(sorted(sub))
        return
    if c.get('seq'):
        # contact sequences: exactly one timed interaction at each of the first L instants, every choice of pair at every
        # instant (|pairs|**L histories) — deep in time where the subset universes are wide
        nt = c['nt']
        for L in range(0, min(c['k'], nt) + 1):
            for seq in itertools.product(range(len(pairs)), repeat=L):
                yield tuple(sorted(p * nt + t for t, p in enumerate(seq)))
        return
    for r in range(0, min(c['k'], len(atoms)) + 1):
        for sub in itertools.combinations(range(len(atoms)), r):
            yield sub


def build(c, sub, route='points'):
    """build the graph of atom subset `sub` through the public API"""
    import dynetx as dn
    nodes, T, pairs, atoms = universe(c)
    G = getattr(dn, c['cls'])()
    chosen = [atoms[i] for i in sub]
    if route == 'points':
        for (i, j, t) in sorted(chosen, key=lambda a: (a[2], a[0], a[1])):
            G.add_interaction(nodes[i], nodes[j], T[t])
    else:
        by = collections.defaultdict(set)
        for (i, j, t) in chosen:
            by[(i, j)].add(t)
        for (i, j), ts in by.items():
            for a, b in runs_of(ts):
                G.add_interaction(nodes[i], nodes[j], T[a], T[b] + 1)
    return G


def presence_of(c, sub):
    """{(u, v, t)} over concrete ids/instants, both orientations for undirected graphs"""
    nodes, T, pairs, atoms = universe(c)
    P = set()
    for i in sub:
        a, b, t = atoms[i]
        P.add((nodes[a], nodes[b], T[t]))
        if c['cls'] != 'DynDiGraph':
            P.add((nodes[b], nodes[a], T[t]))
    return P


def describe(c, sub):
    nodes, T, pairs, atoms = universe(c)
    return ['add_interaction(%r, %r, t=%r)' % (nodes[a], nodes[b], T[t])
            for (a, b, t) in sorted((atoms[i] for i in sub), key=lambda a: (a[2], a[0], a[1]))]


# ---------------------------------------------------------------------------------------------
_GCTX = None


def _alarm(signum, frame):
    raise TimeoutError()


def _keep(viols, percls, new):
    """at most 3 witnesses per violation class and worker (a frequent class must not crowd out a rare one)"""
    import json as _json
    for x in new:
        j = x.to_json() if hasattr(x, 'to_json') else x
        k = j['sub'] + '|' + _json.dumps(j['sig'], sort_keys=True, default=repr)
        percls[k] = percls.get(k, 0) + 1
        if percls[k] <= 3:
            viols.append(j)


def _work(args):
    wid, nw = args
    fn, c = _GCTX
    cnt = collections.Counter()
    viols = []
    percls = {}
    signal.signal(signal.SIGALRM, _alarm)
    for gi, sub in enumerate(iter_graphs(c)):
        if gi % nw != wid:
            continue
        signal.setitimer(signal.ITIMER_REAL, 120)
        try:
            try:
                v, k = fn(c, sub)
            except TimeoutError:
                raise
            except Exception as ex:
                from .engine import crash_violation
                v, k = [dict(crash_violation('?', 'graph', list(sub), ex), case={'gconf': c, 'atoms': list(sub)})], {}
        except TimeoutError:
            v, k = [{'property': '?', 'sub': 'timeout', 'sig': {'kind': 'timeout'}, 'case': {'gconf': c, 'atoms': list(sub)},
                     'detail': {}}], {}
        finally:
            signal.setitimer(signal.ITIMER_REAL, 0)
        cnt.update(k)
        cnt['graphs'] += 1
        _keep(viols, percls, v)
    return cnt, viols


def run_graphs(fn, c, workers=None):
    """fn(c, sub) -> (violations, counters) on every graph of the universe; returns (Counter, [violation json])"""
    global _GCTX
    workers = workers or common.WORKERS
    _GCTX = (fn, c)
    ctx = mp.get_context('fork')
    total = collections.Counter()
    viols = []
    with ctx.Pool(workers) as pool:
        for cnt, v in pool.imap(_work, [(i, workers) for i in range(workers)]):
            total.update(cnt)
            viols += v
    _GCTX = None
    return total, viols


# ---------------------------------------------------------------------------------------------
# generic sharded enumeration of an indexed input space (C14, C18, C20)

_ICTX = None


def _iwork(args):
    wid, nw = args
    fn, n, data = _ICTX
    cnt = collections.Counter()
    viols = []
    percls = {}
    signal.signal(signal.SIGALRM, _alarm)
    for i in range(wid, n, nw):
        signal.setitimer(signal.ITIMER_REAL, 120)
        try:
            try:
                v, k = fn(i, data)
            except TimeoutError:
                raise
            except Exception as ex:
                from .engine import crash_violation
                v, k = [dict(crash_violation('?', 'input', i, ex), case=dict(data or {}, index=i))], {}
        except TimeoutError:
            v, k = [{'property': '?', 'sub': 'timeout', 'sig': {'kind': 'timeout'}, 'case': {'index': i}, 'detail': {}}], {}
        finally:
            signal.setitimer(signal.ITIMER_REAL, 0)
        cnt.update(k)
        cnt['inputs'] += 1
        _keep(viols, percls, v)
    return cnt, viols


def run_indexed(fn, n, data=None, workers=None):
    """fn(i, data) -> (violations, counters) for every i in range(n), sharded; deterministic merge"""
    global _ICTX
    workers = workers or common.WORKERS
    _ICTX = (fn, n, data)
    ctx = mp.get_context('fork')
    total = collections.Counter()
    viols = []
    with ctx.Pool(workers) as pool:
        for cnt, v in pool.imap(_iwork, [(i, workers) for i in range(workers)]):
            total.update(cnt)
            viols += v
    _ICTX = None
    return total, viols
