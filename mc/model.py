"""The reference model (DESIGN.md §2.3): presence sets per pair, nothing else.

Everything an oracle needs is derived from `pres` by set arithmetic.  `closed` is provenance
only: it records, per run of a pair, whether the documented defect D5 (a two-instant run built
by two calls without vanishing time is never closed in the stream — pinned by the test-suite)
*predicts* a missing '-' event.  It is used to recognise that one known finding precisely and
never to decide a property.
"""
from .universes import node_of, time_of, bulk_elements, ATTRS
import copy


def runs_of(s):
    """maximal runs [a, b] of a set of ints, ascending"""
    out = []
    for t in sorted(s):
        if out and out[-1][1] == t - 1:
            out[-1][1] = t
        else:
            out.append([t, t])
    return out


class Model:
    def __init__(self, conf):
        self.conf = conf
        self.directed = conf['cls'] == 'DynDiGraph'
        self.removal = conf['removal']
        self.nodes = []          # insertion order
        self.attrs = {}          # node -> attribute dict
        self.pres = {}           # pair key -> set of instants (removal mode) / accepted instants (acc. mode)
        self.closed = {}         # pair key -> {run start: bool}   (D5 provenance, removal mode)
        self.accepted = set()    # instants at which some add was accepted (acc. mode snapshot ids)
        self.classes = []        # classification of each element add (vacuity accounting)

    # ---- helpers
    def key(self, u, v):
        if self.directed:
            return (u, v)
        return tuple(sorted((u, v), key=repr))

    def _touch(self, n):
        if n not in self.attrs:
            self.nodes.append(n)
            self.attrs[n] = {}

    # ---- single add: verdict, then commit
    def verdict_add(self, u, v, t, e):
        if t is None:
            return 'NetworkXError'
        k = self.key(u, v)
        if k in self.pres and self.pres[k]:
            last = runs_of(self.pres[k])[-1]
            if t < last[0]:
                return 'ValueError'
        return 'ok'

    def classify(self, u, v, t, e):
        k = self.key(u, v)
        kind = 'pt' if e is None else 'iv'
        if k not in self.pres or not self.pres[k]:
            return 'first/' + kind
        s, en = runs_of(self.pres[k])[-1]
        t1 = t if (e is None or not self.removal) else e - 1
        lastk = 'lastpt' if s == en else 'lastiv'
        if t < s:
            return 'before-start/' + kind + '/' + lastk
        if t > en + 1:
            pos = 'gap'
        elif t == en + 1:
            pos = 'adjacent'
        elif t1 <= en:
            pos = 'duplicate' if (t == s and t1 == en) else 'contained'
        elif t == s:
            pos = 'same-start-longer'
        else:
            pos = 'overlap'
        return pos + '/' + kind + '/' + lastk

    def commit_add(self, u, v, t, e):
        """apply an accepted add"""
        k = self.key(u, v)
        self._touch(u)
        self._touch(v)
        if not self.removal:
            self.pres.setdefault(k, set()).add(t)
            self.accepted.add(t)
            return
        t1 = t if e is None else e - 1
        cl = self.closed.setdefault(k, {})
        if k not in self.pres or not self.pres[k]:
            cl[t] = e is not None
        else:
            s, en = runs_of(self.pres[k])[-1]
            if t > en + 1:
                cl[t] = e is not None
            elif t1 > en:
                if t >= s:
                    cl[s] = (e is not None) or cl.get(s, False) or (en > s)
                else:   # forced by an implementation that accepted a span the rule rejects
                    cl[t] = e is not None
            else:
                cl[s] = cl.get(s, False) or (e is not None and e == en + 1)
        self.pres.setdefault(k, set()).update(range(t, t1 + 1))

    # ---- ops
    def elements(self, op):
        """the single adds an op decomposes into: list of (u, v, t, e)"""
        c = self.conf
        k = op[0]
        if k == 'add':
            return [(node_of(c, op[1]), node_of(c, op[2]), time_of(c, op[3]), time_of(c, op[4]))]
        if k == 'addnot':
            return [(node_of(c, op[1]), node_of(c, op[2]), None, None)]
        if k == 'bulk':
            t, e = time_of(c, op[4]), time_of(c, op[5])
            return [(node_of(c, i), node_of(c, j), t, e) for (i, j) in bulk_elements(op)]
        return []

    def expected(self, op):
        """(verdict, number of leading elements applied) on the current model state, without
        changing it.  Bulk ops are a left fold that stops at the first failing element."""
        k = op[0]
        if k in ('node', 'nodes', 'nodes2', 'uattr', 'uattrs', 'observe', 'clear', 'clear_edges'):
            return 'ok', 0
        els = self.elements(op)
        if k == 'bulk' and op[4] is None:
            return 'NetworkXError', 0
        if len(els) == 1:
            return self.verdict_add(*els[0]), 0
        tmp = self.clone()
        for idx, el in enumerate(els):
            vd = tmp.verdict_add(*el)
            if vd != 'ok':
                return vd, idx
            tmp.commit_add(*el)
        return 'ok', len(els)

    def commit(self, op, outcome):
        """apply op given what the implementation did (the model follows the implementation so
        that later states can still be explored; C01 reports any disagreement)"""
        c = self.conf
        k = op[0]
        if k == 'node':
            n = node_of(c, op[1])
            self._touch(n)
            self.attrs[n].update(copy.deepcopy(ATTRS[op[2]]))
            return
        if k == 'nodes':
            for i in op[1]:
                n = node_of(c, i)
                self._touch(n)
                self.attrs[n].update(copy.deepcopy(ATTRS[op[2]]))
            return
        if k == 'nodes2':
            from .universes import ATTRS2
            for i in op[1]:
                n = node_of(c, i)
                self._touch(n)
                self.attrs[n].update(dict(ATTRS2))
            return
        if k == 'observe':
            return
        if k in ('clear', 'clear_edges'):
            if outcome == 'ok':
                self.pres = {}
                self.closed = {}
                self.accepted = set()
                if k == 'clear':
                    self.nodes = []
                    self.attrs = {}
            return
        if k in ('uattr', 'uattrs'):
            for i in ([op[1]] if k == 'uattr' else op[1]):
                n = node_of(c, i)
                if n in self.attrs:
                    self.attrs[n] = copy.deepcopy(ATTRS[op[2]])     # update_node_attr replaces the dict
            return
        els = self.elements(op)
        if k == 'bulk' and op[4] is None:
            return
        for el in els:
            vd = self.verdict_add(*el)
            if vd != 'ok':
                if outcome == 'ok' and el[2] is not None:
                    # implementation accepted what the rule rejects: follow it
                    self.classes.append('forced')
                    self.commit_add(*el)
                    continue
                return
            if outcome != 'ok' and len(els) == 1:
                return          # implementation rejected what the rule accepts: follow it
            self.classes.append(self.classify(*el))
            self.commit_add(*el)

    def clone(self):
        m = Model(self.conf)
        m.nodes = list(self.nodes)
        m.attrs = copy.deepcopy(self.attrs)
        m.pres = {k: set(v) for k, v in self.pres.items()}
        m.closed = {k: dict(v) for k, v in self.closed.items()}
        m.accepted = set(self.accepted)
        return m

    # ---- derived
    def present(self, u, v, t):
        k = self.key(u, v)
        if k not in self.pres:
            return False
        if self.removal:
            return t in self.pres[k]
        return bool(self.accepted) and min(self.pres[k]) <= t <= max(self.accepted)

    def ever(self, u, v):
        return self.key(u, v) in self.pres

    def canon(self):
        return (tuple((repr(n), repr(sorted(self.attrs.get(n, {}).items(), key=repr))) for n in self.nodes),
                tuple(sorted((repr(k), tuple(sorted(v))) for k, v in self.pres.items())),
                tuple(sorted((repr(k), tuple(sorted(v.items()))) for k, v in self.closed.items())),
                tuple(sorted(self.accepted)))

    def d5_runs(self):
        """{pair key: [run, ...]} runs of length > 1 for which D5 predicts no closing '-'"""
        out = {}
        if not self.removal:
            return out
        for k, s in self.pres.items():
            for a, b in runs_of(s):
                if b > a and not self.closed.get(k, {}).get(a, False):
                    out.setdefault(k, []).append([a, b])
        return out
