"""Oracles for the path properties (C12, C13, C15): an independent brute-force enumerator of
time-respecting paths on the presence relation (no code shared with temporal_dag) and the
per-hop soundness conditions of the statement."""
import itertools
import networkx as nx


def nbrs(P, directed, a, t):
    """nodes a interacts with at t (outgoing on directed graphs; P already holds both orientations
    of an undirected interaction)"""
    return sorted((v for (u, v, tt) in P if u == a and tt == t), key=repr)


def window_ids(ids, start, end):
    if not ids:
        return [], 0, -1
    lo = ids[0] if start is None else start
    hi = ids[-1] if end is None else end
    return [t for t in ids if lo <= t <= hi], lo, hi


def brute_paths(P, directed, ids, u, v, start, end):
    """all hop sequences satisfying the conditions of C12, as a set of tuples of (a, b, t)"""
    wids, lo, hi = window_ids(ids, start, end)
    out = set()

    def extend(path):
        a_prev, b, t_arr = path[-1]
        for t in wids:
            if t <= t_arr:
                continue
            ns = nbrs(P, directed, b, t)
            if not ns:
                return                      # b has no interaction at t: it cannot wait any longer
            for c in ns:
                if c == a_prev:
                    continue                # immediate reversal
                p2 = path + ((b, c, t),)
                out.add(p2)
                extend(p2)

    for t in wids:
        for n in nbrs(P, directed, u, t):
            p = ((u, n, t),)
            out.add(p)
            extend(p)
    if v is not None:
        out = set(p for p in out if p[-1][1] == v)
    return out


def check_path_sound(P, directed, ids, u, v, lo, hi, key, p):
    """per-hop soundness conditions; returns a list of failed condition names"""
    bad = []
    if not isinstance(p, tuple):
        bad.append('path-not-a-tuple')
    if len(p) == 0:
        return bad + ['empty-path']
    for h in p:
        if not (isinstance(h, tuple) and len(h) == 3):
            return bad + ['hop-shape']
    if p[0][0] != u:
        bad.append('first-hop-does-not-leave-u')
    for h1, h2 in zip(p, p[1:]):
        if h1[1] != h2[0]:
            bad.append('hops-do-not-chain')
        if not h1[2] < h2[2]:
            bad.append('times-not-strictly-increasing')
        if h2[0] == h1[1] and h2[1] == h1[0]:
            bad.append('immediate-reversal')
        # waiting node must be alive at every snapshot id strictly between arrival and departure
        for t in ids:
            if h1[2] < t < h2[2] and not nbrs(P, directed, h1[1], t):
                bad.append('intermediate-node-absent-while-waiting')
                break
    for (a, b, t) in p:
        if not (lo <= t <= hi):
            bad.append('hop-outside-window')
        if (a, b, t) not in P:
            bad.append('hop-not-an-interaction')
    if v is not None and p[-1][1] != v:
        bad.append('last-hop-does-not-reach-v')
    if key != (p[0][0], p[-1][1]):
        bad.append('wrong-key')
    return sorted(set(bad))


def parse_occ(name, node_type, tid_type):
    s = str(name).split('_')
    return node_type('_'.join(s[:-1])), tid_type(s[-1])


def check_dag(P, directed, ids, u, v, start, end, result):
    """C15 conditions on a temporal_dag result for a valid window; list of failed condition names (+details)"""
    bad = []
    DG, sources, targets, node_type, tid_type = result
    wids, lo, hi = window_ids(ids, start, end)
    if not nx.is_directed_acyclic_graph(DG):
        bad.append('cyclic')
    occ = {}
    for n in DG.nodes():
        if n == u and DG.degree(n) == 0 and not (isinstance(n, str) and '_' in n):
            continue            # the bare root is registered as an isolated node
        try:
            occ[n] = parse_occ(n, node_type, tid_type)
        except Exception:
            bad.append('node-not-an-occurrence')
    srcset = set(sources)
    for (x, y) in DG.edges():
        if x not in occ or y not in occ:
            bad.append('edge-on-non-occurrence')
            continue
        (X, s), (Y, t) = occ[x], occ[y]
        if (X, Y, t) not in P:
            bad.append('edge-not-an-interaction')
        if not (lo <= t <= hi):
            bad.append('edge-outside-window')
        if not (s < t or (s == t and x in srcset)):
            bad.append('edge-time-order')
    want_src = set('%s_%s' % (u, t) for t in wids if nbrs(P, directed, u, t))
    if srcset != want_src or len(sources) != len(srcset):
        bad.append('sources-differ')
    for tg in targets:
        try:
            Y, t = parse_occ(tg, node_type, tid_type)
        except Exception:
            bad.append('target-not-an-occurrence')
            continue
        if v is not None and Y != v:
            bad.append('target-not-an-occurrence-of-v')
    for n in list(sources) + list(targets):
        if n not in DG:
            bad.append('source-or-target-not-a-dag-node')
            break
    return sorted(set(bad))


def all_windows(T, ids):
    """(start, end) choices: every integer pair inside [first id, last id] (start need not be an
    id) and the None defaults"""
    out = [(None, None)]
    if ids:
        lo, hi = ids[0], ids[-1]
        rng = list(range(lo, hi + 1))
        out += [(s, e) for s in rng for e in rng if s <= e]
        out += [(None, e) for e in rng] + [(s, None) for s in rng]
    return out


def invalid_windows(ids):
    out = []
    if ids:
        lo, hi = ids[0], ids[-1]
        out += [(lo - 1, hi), (lo, hi + 1), (lo - 1, None), (None, hi + 1), (hi + 1, hi + 1), (lo - 2, lo - 1)]
        if hi > lo:
            out += [(hi, lo)]
        out += [(s, e) for s in range(lo, hi + 1) for e in range(lo, hi + 1) if s > e][:4]
    return out


def subsets_chooser(n, size):
    """every index subset of the requested size when there are <= 64 of them, otherwise a fixed
    deterministic family (prefix, suffix, every leave-one-out-from-prefix); (answers, capped)"""
    import math
    if size <= 0:
        return [()], False
    if math.comb(n, size) <= 64:
        return list(itertools.combinations(range(n), size)), False
    fam = [tuple(range(size)), tuple(range(n - size, n))]
    for i in range(min(size, 8)):
        fam.append(tuple(x for x in range(size + 1) if x != i))
    return fam, True
