"""C12 — every returned time-respecting path is a genuine one."""
from .. import graphs, pathsoracle as po
from ..common import Violation
from . import pathbase

PROP = 'C12'
LEVEL = 'model_checking'


def _check_result(c, sub, P, directed, ids, u, v, s, e, r, entry, viols, cnt):
    if isinstance(r, list) and not r:
        return
    if not hasattr(r, 'items'):
        viols.append(Violation(PROP, 'result', {'kind': 'result-type', 'entry': entry, 'cls': c['cls']},
                               {'gconf': c, 'atoms': list(sub), 'query': [repr(u), repr(v), s, e]}, {'got': repr(r)[:200]}))
        return
    wids, lo, hi = po.window_ids(ids, s, e)
    for key, plist in r.items():
        if len(plist) != len(set(map(tuple, plist))):
            viols.append(Violation(PROP, 'path', {'kind': 'duplicate-path', 'entry': entry, 'cls': c['cls']},
                                   {'gconf': c, 'atoms': list(sub), 'query': [repr(u), repr(v), s, e]}, {'key': repr(key), 'paths': repr(plist)[:300]}))
        for p in plist:
            cnt['paths_checked'] += 1
            if len(p) >= 2:
                cnt['multi_hop_paths'] += 1
            src = key[0] if entry == 'all_time_respecting_paths' else u
            bad = po.check_path_sound(P, directed, ids, src, v, lo, hi, key, p)
            if bad:
                viols.append(Violation(PROP, 'path', {'kind': 'unsound-path', 'conditions': bad, 'entry': entry, 'cls': c['cls']},
                                       {'gconf': c, 'atoms': list(sub), 'query': [repr(u), repr(v), s, e]},
                                       {'graph': graphs.describe(c, sub), 'call': '%s(G, %r, %r, start=%r, end=%r)' % (entry, u, v, s, e),
                                        'path': repr(p), 'key': repr(key), 'failed': bad}))


def eval_graph(c, sub):
    import collections
    import dynetx.algorithms as al
    cnt = collections.Counter()
    viols = []
    nodes, T, pairs, atoms = graphs.universe(c)
    directed = c['cls'] == 'DynDiGraph'
    G = graphs.build(c, sub)
    P = graphs.presence_of(c, sub)
    ids = sorted(set(t for (_, _, t) in P))
    gnodes = list(G.nodes())
    for u in gnodes:
        for v in [None] + nodes:
            for (s, e) in po.all_windows(T, ids):
                cnt['queries'] += 1
                try:
                    r = al.time_respecting_paths(G, u, v, s, e)
                except Exception as ex:
                    viols.append(Violation(PROP, 'call', {'kind': 'raises', 'exc': type(ex).__name__, 'entry': 'time_respecting_paths', 'cls': c['cls']},
                                           {'gconf': c, 'atoms': list(sub), 'query': [repr(u), repr(v), s, e]},
                                           {'graph': graphs.describe(c, sub), 'call': 'time_respecting_paths(G, %r, %r, start=%r, end=%r)' % (u, v, s, e),
                                            'raised': repr(ex)[:200]}))
                    continue
                _check_result(c, sub, P, directed, ids, u, v, s, e, r, 'time_respecting_paths', viols, cnt)
    wins = [(None, None)] + [(s, e) for (s, e) in po.all_windows(T, ids) if s is not None and e is not None]
    for m in [None] + ids:
        for (s, e) in wins:
            cnt['queries'] += 1
            try:
                r = al.all_time_respecting_paths(G, s, e, min_t=m)
            except Exception as ex:
                viols.append(Violation(PROP, 'call', {'kind': 'raises', 'exc': type(ex).__name__, 'entry': 'all_time_respecting_paths', 'cls': c['cls']},
                                       {'gconf': c, 'atoms': list(sub), 'query': [None, None, s, e, m]},
                                       {'graph': graphs.describe(c, sub), 'call': 'all_time_respecting_paths(G, start=%r, end=%r, min_t=%r)' % (s, e, m),
                                        'raised': repr(ex)[:200]}))
                continue
            _check_result(c, sub, P, directed, ids, None, None, s, e, r, 'all_time_respecting_paths', viols, cnt)
    # differential: the same presence built by interval adds gives the same answers
    if any((a, b, t + 1) in P for (a, b, t) in P):
        G2 = graphs.build(c, sub, route='intervals')
        for u in gnodes:
            cnt['queries'] += 1
            try:
                r1 = al.time_respecting_paths(G, u)
                r2 = al.time_respecting_paths(G2, u)
                n1 = {k: sorted(v) for k, v in (r1.items() if hasattr(r1, 'items') else [])}
                n2 = {k: sorted(v) for k, v in (r2.items() if hasattr(r2, 'items') else [])}
                if n1 != n2:
                    viols.append(Violation(PROP, 'route', {'kind': 'build-route-changes-answer', 'cls': c['cls']},
                                           {'gconf': c, 'atoms': list(sub), 'query': [repr(u), None, None, None]}, {'graph': graphs.describe(c, sub)}))
            except Exception:
                pass
    # twin with the ids turned into strings (same text, other type), queried in the same process right after: no decoded
    # hop or key may be carried over from the graph with the original ids
    if all(isinstance(n, int) for n in nodes) and len(sub) >= 1:
        import dynetx as dn
        G3 = getattr(dn, c['cls'])()
        for (a, b, t) in sorted((atoms[i] for i in sub), key=lambda x: (x[2], x[0], x[1])):
            G3.add_interaction(str(nodes[a]), str(nodes[b]), T[t])
        P3 = set((str(a), str(b), t) for (a, b, t) in P)
        for u in list(G3.nodes()):
            cnt['queries'] += 1
            try:
                r = al.time_respecting_paths(G3, u)
            except Exception as ex:
                viols.append(Violation(PROP, 'call', {'kind': 'raises', 'exc': type(ex).__name__, 'entry': 'time_respecting_paths(str-id twin)', 'cls': c['cls']},
                                       {'gconf': c, 'atoms': list(sub), 'query': ['twin', repr(u)]}, {'graph': graphs.describe(c, sub)}))
                continue
            _check_result(c, sub, P3, directed, ids, u, None, None, None, r, 'time_respecting_paths(str-id twin)', viols, cnt)
    if len(ids) >= 2 and len(sub) >= 2:
        cnt['nontrivial_graphs'] += 1
    return viols[:6], cnt


def run(tier, seed):
    cfs = pathbase.confs(tier, seed, loops_k=3)
    import dynetx.algorithms as al
    c0 = cfs[0]
    sub = (0, 4, 8) if graphs.count_graphs(c0) > 100 else ()
    G = graphs.build(c0, sub)
    sample = {'universe': graphs.gconf_name(c0), 'graph': graphs.describe(c0, sub),
              'call': 'time_respecting_paths(G, %r)' % (graphs.universe(c0)[0][0],)}
    try:
        sample['result'] = repr(dict(al.time_respecting_paths(G, graphs.universe(c0)[0][0])))[:400]
    except Exception as ex:
        sample['result'] = 'raises %r' % ex
    return pathbase.run(
        PROP, LEVEL, eval_graph, tier, seed, cfs, nontrivial_key='nontrivial_graphs',
        vacuity={'multi_hop_paths': 100, 'paths_checked': 1000}, samples=[sample],
        rule='every temporal graph = subset of (pairs x T) with <= k timed interactions (universes listed in per_universe, both classes, '
             'with and without self-loops), built by chronological point adds; x every source in the graph x every target (None, each '
             'node incl. the source) x every integer (start,end) inside [first id,last id] and the None defaults; + all_time_respecting_paths '
             'x min_t; every returned path checked hop by hop against the conditions of the statement; non-trivial = graph with >= 2 '
             'snapshot ids and >= 2 timed interactions')


def replay(case):
    v, _ = eval_graph(case['gconf'], tuple(case['atoms']))
    return v
