"""C03 — timelines are canonical (base states; derived graphs are added by derived_graphs())."""
from .. import oracles
from . import base

PROP = 'C03'
LEVEL = 'model_checking'


def state_fn(conf, hist, G, M):
    ctx = oracles.presence_ctx(G, conf)
    trip = oracles.canonical(G, conf, ctx)
    nruns = [len(oracles.runs_of(s)) for s in ctx[3].values()]
    cnt = {'evaluations': 1, 'nontrivial': 1 if any(n >= 2 for n in nruns) or len(nruns) >= 2 else 0,
           'states_multi_run': 1 if any(n >= 2 for n in nruns) else 0}
    return trip, cnt, {'timelines': [repr(sorted((repr(k), sorted(v)) for k, v in ctx[3].items()))]}


def run(tier, seed):
    return base.run_state_property(
        PROP, LEVEL, state_fn, tier, seed, vacuity={'states_multi_run': 10},
        sample_fn=base.default_samples,
        rule='BFS over add_* histories (U1,U2,TWO,U3), both classes, removal enabled; in every distinct state every '
             'timeline exposed by interactions()/in_/out_interactions() (all nodes as nbunch too) is checked: [s,e] pairs, '
             's<=e, gaps >= 1 absent instant, union == has_interaction presence, both endpoints expose the same list; '
             'non-trivial = a pair with >= 2 runs or >= 2 pairs')


def replay(case):
    return base.replay_state_property(PROP, state_fn, case)
