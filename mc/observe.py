"""API-only observation of a graph state, plus the structural de-duplication key."""
import numbers
import hashlib
from .universes import FLAVOURS, node_of
from .model import runs_of


def probe_nodes(G, conf):
    fl = FLAVOURS[conf['flavour']]
    out = list(fl['ids']) + [fl['z']]
    for n in G.nodes():
        if n not in out:
            out.append(n)
    return out


def probe_times(G, conf, extra=()):
    """o-1 .. o+w+1 plus every instant the implementation itself returns"""
    o = FLAVOURS[conf['flavour']]['origin']
    ts = set(range(o - 1, o + conf['w'] + 2))
    ts.update(extra)
    try:
        ts.update(t for t in G.temporal_snapshots_ids() if isinstance(t, numbers.Integral))
    except Exception:
        pass
    try:
        ts.update(ev[3] for ev in G.stream_interactions() if isinstance(ev[3], numbers.Integral))
    except Exception:
        pass
    try:
        its = G.out_interactions() if G.is_directed() else G.interactions()
        for it in its:
            for iv in it[2]['t']:
                for x in iv:
                    if isinstance(x, numbers.Integral):
                        ts.add(x)
                        ts.add(x + 1)
                        ts.add(x - 1)
    except Exception:
        pass
    return sorted(ts)


def presence(G, nodes, times):
    """the state's own presence relation: set of (u, v, t) with has_interaction(u, v, t)"""
    P = set()
    for u in nodes:
        for v in nodes:
            if G.has_interaction(u, v):
                for t in times:
                    if G.has_interaction(u, v, t):
                        P.add((u, v, t))
            else:
                for t in times:
                    if G.has_interaction(u, v, t):   # present at t but not "ever"? keep, oracle decides
                        P.add((u, v, t))
    return P


def pairkey(G, u, v):
    return (u, v) if G.is_directed() else tuple(sorted((u, v), key=repr))


def presence_by_pair(G, P):
    out = {}
    for (u, v, t) in P:
        out.setdefault(pairkey(G, u, v), set()).add(t)
    return out


def timelines(G):
    """{pair key: timeline list} as exposed by out_interactions()/interactions(), t omitted"""
    out = {}
    its = G.out_interactions() if G.is_directed() else G.interactions()
    for it in its:
        out[pairkey(G, it[0], it[1])] = [list(x) for x in it[2]['t']]
    return out


def snapshot(G, conf, extra_times=()):
    """full observable snapshot through the public API, as a comparable (frozen) structure"""
    nodes = probe_nodes(G, conf)
    times = probe_times(G, conf, extra_times)
    P = presence(G, nodes, times)
    ever = frozenset((u, v) for u in nodes for v in nodes if G.has_interaction(u, v))
    ids = tuple(G.temporal_snapshots_ids())
    per = G.interactions_per_snapshots()
    counts = tuple(sorted(((k, float(v)) for k, v in per.items()), key=repr))
    per_t = tuple((t, float(G.interactions_per_snapshots(t))) for t in times)
    stream = tuple(G.stream_interactions())
    nd = tuple((repr(n), repr(sorted(d.items(), key=repr))) for n, d in G.nodes(data=True))
    tl = tuple(sorted((repr(k), repr(v)) for k, v in timelines(G).items()))
    return {'nodes': nd, 'presence': frozenset(P), 'ever': ever, 'ids': ids, 'counts': counts,
            'per_t': per_t, 'stream': stream, 'timelines': tl, 'graph': repr(sorted(G.graph.items(), key=repr))}


def light(G, conf, nodes, times):
    """order-insensitive observable summary of a library-produced graph, for 'observably equal'
    comparisons between two derived graphs (event/tuple order and, on undirected graphs, endpoint
    order inside an event are not constrained by any statement)"""
    P = presence(G, nodes, times)
    st = sorted((repr(pairkey(G, ev[0], ev[1])), ev[2], ev[3]) for ev in G.stream_interactions())
    nd = sorted((repr(n), repr(sorted(d.items(), key=repr))) for n, d in G.nodes(data=True))
    tl = sorted((repr(k), repr(v)) for k, v in timelines(G).items())
    per = G.interactions_per_snapshots()
    return {'class': type(G).__name__, 'nodes': nd, 'presence': frozenset(P), 'ids': tuple(G.temporal_snapshots_ids()),
            'counts': sorted((k, float(v)) for k, v in per.items()), 'stream': st, 'timelines': tl}


def snapshot_diff(a, b):
    """names of the components in which two snapshots differ"""
    return [k for k in a if a[k] != b.get(k)]


# ---------------------------------------------------------------------------------------------
# structural key (DESIGN.md §2.5): generic, order-preserving walk of G.__dict__ with aliasing

_SKIP_TYPES = ('AdjacencyView', 'NodeView', 'EdgeView', 'DegreeView', 'DiDegreeView', 'OutEdgeView',
               'InEdgeView', 'InDegreeView', 'OutDegreeView', 'AtlasView')


def _canon(x, memo):
    if isinstance(x, dict):
        i = id(x)
        if i in memo:
            return ('R', memo[i])
        memo[i] = len(memo)
        return ('D', memo[i], type(x).__name__,
                tuple((_canon(k, memo), _canon(v, memo)) for k, v in x.items()))
    if isinstance(x, list):
        i = id(x)
        if i in memo:
            return ('R', memo[i])
        memo[i] = len(memo)
        return ('L', memo[i], tuple(_canon(v, memo) for v in x))
    if isinstance(x, tuple):
        return ('T', tuple(_canon(v, memo) for v in x))
    if isinstance(x, (set, frozenset)):
        return ('S', tuple(sorted(repr(v) for v in x)))
    if callable(x):
        return ('F', getattr(x, '__name__', type(x).__name__))
    return (type(x).__name__, repr(x))


def canon_impl(G):
    memo = {}
    out = []
    for k, v in G.__dict__.items():
        if type(v).__name__ in _SKIP_TYPES or k == '__networkx_cache__':
            continue
        out.append((k, _canon(v, memo)))
    return tuple(out)


def digest(*parts):
    h = hashlib.blake2b(digest_size=16)
    for p in parts:
        h.update(repr(p).encode())
        h.update(b'\x00')
    return h.digest()
