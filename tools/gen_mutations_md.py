#!/usr/bin/env python3
"""Regenerate MUTATIONS.md from seeded/*/meta.json + result.json"""
import glob, json, os
V = os.path.dirname(os.path.dirname(os.path.abspath(__file__)))
rows = []
benign = []
for d in sorted(glob.glob(os.path.join(V, 'seeded', '*'))):
    if not os.path.exists(os.path.join(d, 'meta.json')):
        continue
    m = json.load(open(os.path.join(d, 'meta.json')))
    hist = json.load(open(os.path.join(d, 'result.json'))) if os.path.exists(os.path.join(d, 'result.json')) else []
    if 'kind' in m:
        benign.append((m, hist))
        continue
    rows.append((m, hist))
out = ['# Seeded property-breaking changes and what catches them', '',
       'Every entry is a change to GiulioRossetti/dynetx kept under `seeded/<id>/` (`patch.diff`, `demo.py`, `meta.json`, `result.json`).',
       'It was applied to /repo with `git apply`, the pinned suite was run (must stay green), the demonstration was run (must fail), the',
       'listed checks were run at the quick tier, the patch was reverted (`git checkout -- .`) and the demonstration re-run (must pass).',
       '`tools/mutate.py seeded/<id>` repeats all of that. "first run" = the first evaluation, before any strengthening; "now" = the latest.',
       '', '| id | property | origin | what | needs | suite green | first run: detected by | now: detected by |', '|---|---|---|---|---|---|---|---|']
for m, hist in rows:
    def det(r):
        return ', '.join(c for c, i in r['checks'].items() if i['detected']) or '**none**'
    first = det(hist[0]) if hist else '-'
    now = det(hist[-1]) if hist else '-'
    # union over later runs for "now": latest result per check
    latest = {}
    for r in hist:
        for c, i in r['checks'].items():
            latest[c] = i['detected']
    now = ', '.join(c for c, dd in latest.items() if dd) or '**none**'
    green = hist[-1]['suite_green'] if hist else '-'
    out.append('| %s | %s | %s | %s | %s | %s | %s | %s |' % (m['id'], m['property'], 'sub-agent' if 'sub-agent' in m['origin'] else 'self', m['what'].replace('|', '\\|'),
                                                         m['needs'].replace('|', '\\|'), green, first, now))
out += ['', 'Changes whose first run was **none** led to a strengthening of the named check, or are listed in DESIGN.md §10 as outside the bounds.', '',
        '## Behaviour-preserving refactorings (must stay silent)', '',
        'Produced by independent sub-agents who were asked for internal changes that keep every public result identical (each comes with a',
        'differential script `equiv.py` whose digest is the same with and without the change). `tools/benign.py seeded/<id>` applies one, runs the suite',
        'and the listed checks and requires exit 0 without a VIOLATION line from every one of them.', '',
        '| id | what | suite green | checks run | first run: alarms | now: alarms |', '|---|---|---|---|---|---|']
for m, hist in benign:
    def loud(r):
        return ', '.join(c for c, i in r['checks'].items() if not i['silent']) or 'none'
    latest = {}
    for r in hist:
        for c, i in r['checks'].items():
            latest[c] = i['silent']
    out.append('| %s | %s | %s | %s | %s | %s |' % (m['id'], m['what'].replace('|', '\\|'), hist[-1].get('suite_green') if hist else '-',
                                                 ', '.join(sorted(latest)), loud(hist[0]) if hist else '-',
                                                 ', '.join(c for c, ok in latest.items() if not ok) or 'none'))
out += ['']
open(os.path.join(V, 'MUTATIONS.md'), 'w').write('\n'.join(out))
print(len(rows), 'entries')
