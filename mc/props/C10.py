"""C10 — interaction-list files replay the event stream and round-trip presence."""
import collections
import itertools
import os
import dynetx as dn
from .. import universes as U
from .. import oracles, observe, iocommon, common, graphs
from ..common import Violation
from ..model import runs_of
from . import base
from .C09 import nodetype_of

PROP = 'C10'
LEVEL = 'model_checking'


def _norm_stream(G, st):
    """events grouped by instant; inside one instant the order is not constrained (DESIGN.md §3.1)"""
    return sorted((ev[3], repr(observe.pairkey(G, ev[0], ev[1])), ev[2]) for ev in st)


def check_io(conf, G, nodes, times, P, PP, combo, serial, d5_lost):
    res = []
    d, enc, target = combo
    directed = G.is_directed()
    if enc == 'ascii' and conf['flavour'] == 4:
        return res, 0
    path = iocommon.fname('i%d' % serial, iocommon.EXT[target])

    def bad(kind, detail, **feat):
        sig = {'kind': kind, 'target': target, 'io': 'interactions'}
        sig.update(feat)
        det = {'delimiter': d, 'encoding': enc, 'target': target}
        det.update(detail)
        res.append(('file', sig, det))

    try:
        if target == 'fileobj':
            with open(path, 'wb') as f:
                dn.write_interactions(G, f, delimiter=d, encoding=enc)
                if f.closed:
                    bad('file-object-closed-by-writer', {})
                    return res, 1
        else:
            dn.write_interactions(G, path, delimiter=d, encoding=enc)
    except Exception as ex:
        bad('write-raises', {'exc': repr(ex)[:200]}, exc=type(ex).__name__)
        return res, 1
    raw = iocommon.raw_bytes(path, target)
    # the writers encode line by line (a signature codec such as utf-8-sig therefore marks every line) and the readers
    # decode line by line: the file is decoded the same way
    try:
        parts = raw.split(b'\n')
        rows = [ln.decode(enc) for ln in parts[:-1]]
        tail = parts[-1]
    except Exception:
        bad('not-in-requested-encoding', {'bytes': repr(raw[:80])})
        return res, 1
    if raw and tail != b'':
        bad('last-line-not-terminated', {'tail': repr(raw[-30:])})
    st = list(G.stream_interactions())
    want_rows = [d.join(map(str, ev)) for ev in st]
    # the rows are the stream's events, in chronological order; the order of rows sharing one instant is not constrained
    def _times(rs):
        out = []
        for r in rs:
            try:
                out.append(int(r.split(d)[-1]))
            except Exception:
                return None
        return out
    rt = _times(rows)
    if sorted(rows) != sorted(want_rows):
        bad('rows-differ-from-stream', {'rows': repr(rows[:6]), 'stream rows': repr(want_rows[:6])}, reordered=False,
            fewer=len(rows) < len(want_rows), more=len(rows) > len(want_rows))
    elif rt is None or any(a > b for a, b in zip(rt, rt[1:])):
        bad('rows-not-chronological', {'rows': repr(rows[:8])})
    nt = nodetype_of(conf)
    ckw = {'comments': U.FLAVOURS[conf['flavour']]['comments']} if 'comments' in U.FLAVOURS[conf['flavour']] else {}
    try:
        if target == 'fileobj':
            with open(path, 'rb') as f:
                H = dn.read_interactions(f, directed=directed, nodetype=nt, timestamptype=int, delimiter=d, encoding=enc, **ckw)
        else:
            H = dn.read_interactions(path, directed=directed, nodetype=nt, timestamptype=int, delimiter=d, encoding=enc, **ckw)
    except Exception as ex:
        bad('read-raises', {'exc': repr(ex)[:200]}, exc=type(ex).__name__)
        H = None
    if H is not None:
        if type(H) is not type(G):
            bad('read-class', {'got': type(H).__name__})
        else:
            hn = list(nodes) + [n for n in H.nodes() if n not in nodes]
            ht = sorted(set(times) | set(observe.probe_times(H, conf)))
            PH = observe.presence(H, hn, ht)
            if PH != P:
                lost = P - PH
                extra = PH - P
                bad('read-back-presence-differs', {'lost': repr(sorted(lost, key=repr)[:6]), 'extra': repr(sorted(extra, key=repr)[:6])},
                    lost=bool(lost), extra=bool(extra),
                    explained_by_unclosed_two_instant_runs=bool(lost) and not extra and lost == d5_lost)
            hs = list(H.stream_interactions())
            if _norm_stream(H, hs) != _norm_stream(G, st):
                bad('read-back-stream-differs', {'written': repr(st)[:300], 'read back': repr(hs)[:300]},
                    fewer=len(hs) < len(st), more=len(hs) > len(st))
            for sub, sig, det in oracles.canonical(H, conf, what='read_interactions'):
                bad('read-back-' + sig['kind'], det)
            # the same file read with a multi-character comment marker that occurs nowhere in it
            if target == 'plain':
                try:
                    H2 = dn.read_interactions(path, directed=directed, nodetype=nt, timestamptype=int, delimiter=d, encoding=enc, comments='--')
                    if _norm_stream(H2, list(H2.stream_interactions())) != _norm_stream(H, hs) or observe.presence(H2, hn, ht) != PH:
                        bad('custom-comment-marker-changes-graph', {'comments': '--'})
                except Exception as ex:
                    bad('custom-comment-marker-raises', {'comments': '--', 'exc': repr(ex)[:200]}, exc=type(ex).__name__)
    try:
        os.unlink(path)
    except OSError:
        pass
    return res, 1


_serial = [0]


def d5_lost_instants(G, P, PP):
    """what the pinned defect D5 (C05) predicts the reader cannot know: the second instant of every
    two-instant run that G's own stream leaves unclosed"""
    minus = set((observe.pairkey(G, ev[0], ev[1]), ev[3]) for ev in G.stream_interactions() if ev[2] == '-')
    lost = set()
    for k, ts in PP.items():
        for a, b in runs_of(ts):
            if b == a + 1 and (k, b + 1) not in minus:
                lost.add((k[0], k[1], b))
                if not G.is_directed():
                    lost.add((k[1], k[0], b))
    return lost


def state_fn(conf, hist, G, M):
    nodes, times, P, PP = oracles.presence_ctx(G, conf)
    full = len(hist) <= 1
    trip = []
    evals = 0
    lost = d5_lost_instants(G, P, PP)
    for combo in iocommon.menu(full):
        _serial[0] += 1
        r, n = check_io(conf, G, nodes, times, P, PP, combo, _serial[0], lost)
        trip += r
        evals += n
    seen = set()
    out = []
    for sub, sig, det in trip:
        k = repr(sorted(sig.items()))
        if k not in seen:
            seen.add(k)
            out.append((sub, sig, det))
    st = list(G.stream_interactions())
    cnt = {'evaluations': evals, 'nontrivial': 1 if any(ev[2] == '-' for ev in st) and len(PP) >= 1 else 0,
           'states_with_minus': 1 if any(ev[2] == '-' for ev in st) else 0,
           'states_multi_run': 1 if any(len(runs_of(s)) >= 2 for s in PP.values()) else 0,
           'states_shared_event_instant': 1 if len(set(ev[3] for ev in st)) < len(st) else 0}
    return out, cnt, {}


# ---- (b) all well-formed chronological event logs up to k rows through the reader ---------------

def log_symbols(nt):
    return [(p, op, t) for p in ((0, 1), (1, 2)) for op in ('+', '-') for t in range(-1, nt - 1)]     # instants straddle 0


def wellformed(log):
    """chronological; every '-' follows a '+' of the same pair that is still open and strictly earlier"""
    last_t = None
    open_since = {}
    for (p, op, t) in log:
        if last_t is not None and t < last_t:
            return False
        last_t = t
        if op == '+':
            open_since[p] = t
        else:
            if p not in open_since or not (t > open_since[p]):
                return False
            del open_since[p]
    return True


def reader_model(log):
    pres = collections.defaultdict(set)
    latest = {}
    for (p, op, t) in log:
        if op == '+':
            pres[p].add(t)
            latest[p] = t
        else:
            pres[p].update(range(latest[p], t))
    return pres


def eval_log(i, data):
    syms = data['syms']
    k = data['k']
    n = len(syms)
    idxs = None
    j = i
    for L in range(1, k + 1):
        if j < n ** L:
            idxs = []
            for _ in range(L):
                j, r = divmod(j, n)
                idxs.append(r)
            break
        j -= n ** L
    log = [syms[x] for x in reversed(idxs)]
    cnt = collections.Counter()
    if not wellformed(log):
        return [], cnt
    cnt['wellformed_logs'] += 1
    if any(op == '-' for (_, op, _) in log):
        cnt['logs_with_minus'] += 1
    viols = []
    want = reader_model(log)
    lines = ['%d %d %s %d' % (p[0], p[1], op, t) for (p, op, t) in log]
    for directed in (False, True):
        cnt['parses'] += 1
        try:
            H = dn.readwrite.edgelist.parse_interactions(lines, directed=directed, nodetype=int, timestamptype=int)
        except Exception as ex:
            viols.append(Violation(PROP, 'reader', {'kind': 'parse-raises', 'exc': type(ex).__name__, 'directed': directed},
                                   {'index': i, 'k': k, 'nt': data['nt']}, {'rows': lines, 'raised': repr(ex)[:200]}))
            continue
        diff = None
        for u in range(3):
            for v in range(3):
                for t in range(-3, data['nt'] + 1):
                    exp = t in want.get((u, v), set()) or ((not directed) and t in want.get((v, u), set()))
                    if bool(H.has_interaction(u, v, t)) != exp:
                        diff = (u, v, t, exp)
        if diff:
            viols.append(Violation(PROP, 'reader', {'kind': 'reader-model-differs', 'directed': directed,
                                                    'expected_present': diff[3], 'log_has_minus': any(op == '-' for (_, op, _) in log)},
                                   {'index': i, 'k': k, 'nt': data['nt']},
                                   {'rows': lines, 'difference at (u,v,t)': repr(diff[:3]), 'expected present': diff[3]}))
        conf = U.conf_make('DynDiGraph' if directed else 'DynGraph', True, 0, data['nt'])
        for sub, sig, det in oracles.canonical(H, conf, what='parse_interactions'):
            viols.append(Violation(PROP, 'reader', {'kind': 'read-' + sig['kind'], 'directed': directed},
                                   {'index': i, 'k': k, 'nt': data['nt']}, dict(det, rows=lines)))
    return viols[:4], cnt


def run(tier, seed):
    params = {'u1_depth': 3, 'u2_depth': 2, 'two_depth': 2, 'u3_depth': 1} if tier == 'quick' else {'u1_depth': 4, 'u2_depth': 2, 'two_depth': 3, 'u3_depth': 1}
    known = common.load_known()
    iocommon.scratch()
    k = 4 if tier == 'quick' else 5
    nt = 4
    syms = log_symbols(nt)
    n = sum(len(syms) ** L for L in range(1, k + 1))
    tot, viols = graphs.run_indexed(eval_log, n, {'syms': syms, 'k': k, 'nt': nt})
    logviol = [Violation(j['property'] if j['property'] != '?' else PROP, j['sub'], {a: b for a, b in j['sig'].items() if a != 'sub'}, j['case'], j['detail'])
               for j in viols]
    orig_finish = common.Report.finish

    def finish(self, known_, rule, extra_=None):
        self.cov['event_logs_enumerated'] = tot['inputs']
        self.cov['wellformed_event_logs_parsed'] = tot['wellformed_logs']
        self.cov['event_logs_with_minus'] = tot['logs_with_minus']
        self.cov['evaluations'] += tot['parses']
        self.add_violations(logviol, known_)
        if tot['logs_with_minus'] < 100:
            self.broken.append('too few event logs with a - row')
        return orig_finish(self, known_, rule, extra_)
    common.Report.finish = finish
    try:
        return base.run_state_property(
            PROP, LEVEL, state_fn, tier, seed, thorough_full=(0, 1), which=base.NO_LONG, reduced=base.REDUCED_LIGHT, params=params, flavours=(0, 1, 2, 4, 5),
            vacuity={'states_with_minus': 10, 'states_multi_run': 10, 'states_shared_event_instant': 10},
            sample_fn=base.default_samples,
            assumptions=['files go to a private scratch directory removed at exit', 'events sharing one instant may come back in any order',
                         "event logs: each '-' follows a still-open '+' of the same pair at a strictly earlier instant; chronological"],
            rule='(a) BFS over add_* histories, removal enabled, both classes, int/str/non-ASCII ids; every distinct state x (delimiter x '
                 'encoding x target: full product on states of depth <= 1, every target once on deeper ones): rows == stream_interactions() '
                 'in order as u<d>v<d>op<d>t; read_interactions gives the same has_interaction matrix, the same stream and canonical '
                 'timelines; (b) every chronological well-formed event log of <= %d rows over 2 pairs x {+,-} x %d instants through '
                 'parse_interactions (directed and undirected) == reader model; evaluations = files written + logs parsed; '
                 "non-trivial = state whose stream has a '-'" % (k, nt))
    finally:
        common.Report.finish = orig_finish


def replay(case):
    if 'index' in case:
        v, _ = eval_log(case['index'], {'syms': log_symbols(case['nt']), 'k': case['k'], 'nt': case['nt']})
        return v
    return base.replay_state_property(PROP, state_fn, case)
