"""C07 — a rejected update leaves no trace (fault enumeration inside the BFS)."""
from .. import universes as U
from .. import engine, common, observe
from ..common import Violation
from . import base

PROP = 'C07'
LEVEL = 'model_checking'
REJECT = ('ValueError', 'NetworkXError')


def twin_of(conf, hist, op):
    """the graph that never made the rejected call: history, then (bulk ops) only the elements
    that preceded the failing one, applied as single add_interaction calls"""
    G0, M0, _ = engine.execute(conf, hist)
    verdict, k = M0.expected(op)
    els = M0.elements(op)[:k] if op[0] == 'bulk' else []
    for (u, v, t, e) in els:
        if e is None:
            G0.add_interaction(u, v, t)
        else:
            G0.add_interaction(u, v, t, e)
    return G0, k


def apply_ops(conf, G, ops):
    return [U.apply_op(G, conf, o) for o in ops]


def check_rejected(conf, hist, op, G, out, alphabet):
    """G = state after the rejected call; returns (violations, counters)"""
    viols = []
    opk = op[0] if op[0] != 'bulk' else 'bulk-' + op[1]
    try:
        G0, k = twin_of(conf, hist, op)
    except Exception as ex:
        # the elements that precede the failing one cannot be applied one by one: the bulk call and the
        # single calls disagree about what is legal
        return [Violation(PROP, 'trace', {'cls': conf['cls'], 'mode': 'rm' if conf['removal'] else 'acc', 'kind': 'bulk-prefix-not-replayable',
                                          'exc': type(ex).__name__, 'op': opk}, base.case_of(conf, hist + (op,)),
                          {'rejected call': U.op_concrete(conf, op), 'raised': out, 'replaying the preceding elements raised': repr(ex)[:200]})], {'rejected_calls': 1}
    s1 = observe.snapshot(G, conf)
    s0 = observe.snapshot(G0, conf)
    cnt = {'rejected_calls': 1, 'rejected_' + out: 1, 'rejected_bulk_partial': 1 if k else 0}
    diff = observe.snapshot_diff(s0, s1)
    if diff:
        viols.append(Violation(PROP, 'trace', {'cls': conf['cls'], 'mode': 'rm' if conf['removal'] else 'acc',
                                               'kind': 'state-changed', 'components': diff, 'exc': out, 'op': opk},
                               base.case_of(conf, hist + (op,)),
                               {'rejected call': U.op_concrete(conf, op), 'raised': out, 'differs in': diff,
                                'before': {d: repr(s0[d])[:300] for d in diff}, 'after': {d: repr(s1[d])[:300] for d in diff}}))
        return viols, cnt
    if observe.canon_impl(G) == observe.canon_impl(G0):
        return viols, cnt          # identical internals => identical futures (determinism)
    # observably equal but internally different: run the legal continuations on both twins
    cnt['twins_internal_diff'] = 1
    pair_ops = [o for o in alphabet if o[0] == 'add' and op[0] in ('add', 'addnot') and set(o[1:3]) == set(op[1:3])]
    conts = [(o,) for o in alphabet] + [(a, b) for a in pair_ops for b in pair_ops]
    for cont in conts:
        Ga, _, _ = engine.execute(conf, hist + (op,))
        Gb, _ = twin_of(conf, hist, op)
        oa = apply_ops(conf, Ga, cont)
        ob = apply_ops(conf, Gb, cont)
        cnt['continuations'] = cnt.get('continuations', 0) + 1
        d = [] if oa == ob else ['outcomes']
        if not d:
            d = observe.snapshot_diff(observe.snapshot(Gb, conf), observe.snapshot(Ga, conf))
        if d:
            viols.append(Violation(PROP, 'continuation', {'cls': conf['cls'], 'mode': 'rm' if conf['removal'] else 'acc',
                                                          'kind': 'later-calls-differ', 'components': d, 'exc': out, 'op': opk},
                                   base.case_of(conf, hist + (op,), continuation=U.hist_to_json(cont)),
                                   {'rejected call': U.op_concrete(conf, op),
                                    'continuation': [U.op_concrete(conf, o) for o in cont], 'differs in': d,
                                    'outcomes with/without the rejected call': [oa, ob]}))
            break
    return viols, cnt


class Spec(engine.Spec):
    prop = PROP
    alphabet = ()

    def on_transition(self, conf, hist, op, G, M, out, exp):
        if out not in REJECT:
            return [], {}
        return check_rejected(conf, hist, op, G, out, self.alphabet)


def run(tier, seed):
    known = common.load_known()
    rep = common.Report(PROP, tier, seed, LEVEL)
    p = base.tier_params(tier)
    sums = {}
    for fl, reduced in base.flavours_for(tier, seed, (0, 1, 2, 3, 5, 6), thorough_full=(0, 1)):
        for cls in ('DynGraph', 'DynDiGraph'):
            for removal in (True, False):
                conf = U.conf_make(cls, removal, fl, base.window_for(tier, fl, p['w']))
                seen = set()
                lconf = dict(conf, w=11)
                plans = [('U0', conf, U.alphabet_U0(conf), 8, ()),
                         ('U1', conf, U.alphabet_U1(conf), p['u1_depth'], ()),
                         ('U2', conf, U.alphabet_U2(conf), p['u2_depth'], ()),
                         ('TWO', conf, U.alphabet_two_pairs(conf), p['two_depth'], ()),
                         ('U3', conf, U.alphabet_U2(conf), p['u3_depth'], U.seeds_U3(conf)),
                         ('LONG', lconf, U.alphabet_LONG(lconf), 4 if tier == 'quick' else 5, ()),
                         ('UC', conf, U.alphabet_UC(conf), 4 if tier == 'quick' else 5, ())]
                if reduced:
                    plans = [('U0', conf, U.alphabet_U0(conf), 8, ()), ('U2', conf, U.alphabet_U2(conf), 1, ()),
                             ('TWO', conf, U.alphabet_two_pairs(conf), 2, ()), ('UC', conf, U.alphabet_UC(conf), 3, ())]
                for name, pconf, alpha, depth, seeds in plans:
                    spec = Spec()
                    spec.alphabet = list(alpha)
                    if pconf is not conf:
                        seen = set()
                    r = engine.bfs(spec, pconf, alpha, depth, seeds=seeds, seen=seen)
                    rep.cov['per_universe'].append({'universe': name, 'conf': U.conf_name(pconf), 'alphabet': len(alpha),
                                                    'depth': depth, 'states': r.states, 'transitions': r.transitions,
                                                    'outcomes': dict(r.outcomes), 'state_space_closed': r.closed})
                    rep.cov['states'] += r.states
                    rep.cov['transitions'] += r.transitions
                    for k, v in r.counters.items():
                        sums[k] = sums.get(k, 0) + v
                    rep.add_violations(r.violations, known)
    rep.cov['traces_validated_against_impl'] = rep.cov['transitions']
    rep.cov['evaluations'] = sums.get('rejected_calls', 0)
    rep.cov['distinct_nontrivial'] = sums.get('rejected_calls', 0)
    rep.cov['counters'] = sums
    for need in ('rejected_ValueError', 'rejected_NetworkXError', 'rejected_bulk_partial'):
        if sums.get(need, 0) < 10:
            rep.broken.append('%s = %d: too few rejected calls of this kind were explored' % (need, sums.get(need, 0)))
    conf0 = U.conf_make('DynGraph', True, 0, p['w'])
    for h in [(('add', 0, 1, 1, None), ('add', 0, 1, 0, None)), (('add', 1, 2, 2, None), ('bulk', 'path', 'm', (0, 1, 2), 1, None))]:
        G, M, outs = engine.execute(conf0, h)
        rep.sample({'conf': U.conf_name(conf0), 'calls': [U.op_concrete(conf0, o) for o in h], 'outcomes': [o[0] for o in outs],
                    'stream_after': repr(list(G.stream_interactions()))})
    rep.assumptions = ['PYTHONHASHSEED=0', 'identical structural state => identical futures (library is deterministic)',
                       'bulk twin = the preceding elements applied as single add_interaction calls']
    return rep.finish(known, base.UNIVERSE_NOTE[4:] + ' || ' + 'BFS over add_* histories, both classes, both removal modes; every transition whose call raises '
                             'ValueError/NetworkXError (single adds, missing t, bulk helpers failing at element 1..3) is compared: '
                             'full observable snapshot after the call == snapshot of the twin that never made it (bulk: that '
                             'executed only the preceding elements); if internals differ although observables agree, all depth-1 '
                             'continuations (and depth-2 on the touched pair) are run on both twins; '
                             'evaluations = distinct_nontrivial = rejected (state, call) pairs checked — every one is a distinct '
                             '(state, call) because states are de-duplicated')


def replay(case):
    conf = case['conf']
    hist = U.hist_from_json(case['history'])
    G, M, outs = engine.execute(conf, hist)
    out = outs[-1][0]
    if out not in REJECT:
        return []
    alpha = U.alphabet_U2(conf)
    return check_rejected(conf, hist[:-1], hist[-1], G, out, alpha)[0]
