#!/usr/bin/env python3
"""tools/benign.py <seeded/benign-dir> [--checks C01,C02|--all]: apply a behaviour-preserving refactoring to /repo, the suite must stay
green and every listed check must stay SILENT (exit 0, no VIOLATION line); revert.  Appends to <dir>/result.json."""
import json, os, subprocess, sys, time
VERIF = os.path.dirname(os.path.dirname(os.path.abspath(__file__)))
ALL = ['C%02d' % i for i in range(1, 21)]
def sh(cmd, **kw):
    return subprocess.run(cmd, shell=isinstance(cmd, str), capture_output=True, text=True, **kw)
d = os.path.abspath(sys.argv[1])
meta = json.load(open(os.path.join(d, 'meta.json')))
checks = meta.get('checks') or ALL
if '--checks' in sys.argv:
    checks = sys.argv[sys.argv.index('--checks') + 1].split(',')
if '--all' in sys.argv:
    checks = ALL
repo = '/repo'
if '--repo' in sys.argv:          # a scratch worktree of /repo: evaluations can run in parallel, /repo is never touched
    repo = os.path.realpath(sys.argv[sys.argv.index('--repo') + 1])
cenv = dict(os.environ)
if repo != '/repo':
    cenv['VERIF_REPO'] = repo
if sh('git -C %s status --porcelain --untracked-files=no' % repo).stdout.strip():
    print('refusing: %s is not clean' % repo); sys.exit(2)
res = {'at': time.strftime('%Y-%m-%dT%H:%M:%S'), 'repo_head': sh('git -C %s rev-parse --short HEAD' % repo).stdout.strip(), 'checks': {}}
try:
    r = sh(['git', '-C', repo, 'apply', os.path.join(d, 'patch.diff')])
    if r.returncode != 0:
        print('patch does not apply', r.stderr[-300:]); sys.exit(2)
    s = sh(['python3', os.path.join(VERIF, 'tools', 'run_suite.py'), repo])
    res['suite_green'] = s.returncode == 0
    for c in checks:
        t0 = time.time()
        cr = sh([os.path.join(VERIF, 'check'), c, 'quick'], cwd=VERIF, env=cenv)
        vl = [l for l in cr.stdout.split('\n') if l.startswith('VIOLATION')]
        first = ''
        lines = cr.stdout.split('\n')
        for i, l in enumerate(lines):
            if l.startswith('VIOLATION') or l.startswith('HARNESS'):
                first = ' | '.join(x.strip() for x in lines[i:i + 3])[:600]
                break
        res['checks'][c] = {'rc': cr.returncode, 'silent': cr.returncode == 0 and not vl, 'wall_s': round(time.time() - t0, 1), 'first': first}
finally:
    sh('git -C %s checkout -- .' % repo)
out = os.path.join(d, 'result.json')
hist = json.load(open(out)) if os.path.exists(out) else []
hist.append(res)
json.dump(hist, open(out, 'w'), indent=1)
loud = [c for c, i in res['checks'].items() if not i['silent']]
print('%s: suite_green=%s silent=%d/%d  ALARMS=%s' % (os.path.basename(d), res.get('suite_green'), len(res['checks']) - len(loud), len(res['checks']), loud or 'none'))
for c in loud:
    print('   %s rc=%d %s' % (c, res['checks'][c]['rc'], res['checks'][c]['first'][:400]))
