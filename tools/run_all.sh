#!/bin/sh
# tools/run_all.sh [quick|thorough] [seed] [ids...]   — run every check, one summary line each
cd "$(dirname "$0")/.." || exit 2
tier=${1:-quick}; seed=${2:-0}; shift; shift
ids=${*:-"C01 C02 C03 C04 C05 C06 C07 C08 C09 C10 C11 C12 C13 C14 C15 C16 C17 C18 C19 C20"}
rc_all=0
for p in $ids; do
  s=$(date +%s)
  out=$(VERIF_SEED=$seed ./check $p $tier 2>&1); rc=$?
  e=$(date +%s)
  echo "$p rc=$rc $((e-s))s | $(echo "$out" | grep -c '^VIOLATION') violations, $(echo "$out" | grep -c '^KNOWN-FINDING') known | $(echo "$out" | grep "^$p " | cut -c1-160)"
  [ $rc -ne 0 ] && { rc_all=1; echo "$out" | grep -E '^(VIOLATION|HARNESS|Traceback)' | head -5; }
done
exit $rc_all
