"""Alphabets, flavours, configurations and the op interpreter (DESIGN.md §2.4).

An *op* is a plain tuple of JSON-able values over abstract node indices (0..3, 4 = the unknown
node z) and abstract time offsets (0..w-1); a *flavour* maps them to concrete ids / instants.

  ('add', i, j, t, e)                 add_interaction(u, v, t[, e])      e None -> point span
  ('addnot', i, j)                    add_interaction(u, v)              (missing t)
  ('bulk', kind, form, nodes, t, e)   kind in from/path/star/cycle, form in m(ethod)/f(unction);
                                      nodes: tuple of indices (for 'from': tuple of pairs)
  ('node', i, a)                      add_node(n, **ATTRS[a])
  ('nodes', (i, j), a)                add_nodes_from([..], **ATTRS[a])
  ('nodes2', (i, j))                  add_nodes_from([(n, {2019: 'x', 'node_for_adding': 1}), ...])   attribute keys that are no identifiers
  ('uattr', i, a)                     update_node_attr(n, **ATTRS[a])          (only if n is in the graph)
  ('uattrs', (i, j), a)               update_node_attr_from([..], **ATTRS[a])  (nodes in the graph only)
  ('observe',)                        a bundle of read-only queries in the middle of a history (primes any hidden cache)
  ('clear',) / ('clear_edges',)       the two removers of the networkx API
"""
import networkx as nx

HUGE = 2 ** 60          # beyond 2**53: float(t) is no longer injective on neighbouring instants


def _np64(x):
    import numpy
    return numpy.int64(x)


FLAVOURS = {
    0: dict(name='int-o-2', ids=[0, 1, 2, 3], z=9, origin=-2),     # the window straddles 0: falsy-zero instants and ids
    1: dict(name='str-oHUGE', ids=['b', 'a', 'c', 'd'], z='z', origin=HUGE + 7),   # unsorted string ids; instants beyond 2**53
    2: dict(name='int10-o-3', ids=[12, 10, 11, 13], z=19, origin=-3),
    3: dict(name='tuple-o100', ids=[(1, 'x'), (0, 'y'), (2, 'x'), (3, 'w')], z=(9, 'q'), origin=100),
    # non-ASCII string ids: only used by the file I/O properties (C09, C10)
    4: dict(name='str-nonascii-hash-o7', ids=['\u00e9', 'a#1', '\u00fc', 'd'], z='z', origin=7, comments='!'),
    # numpy integer instants (an integer type that is not a subclass of int)
    5: dict(name='int-npint64-o5', ids=[0, 1, 2, 3], z=9, origin=5, timetype=_np64),
    # mutually incomparable hashable ids
    6: dict(name='mixed-ids-o3', ids=[0, 'a', (0, 'a'), frozenset({1, 2})], z=frozenset({7}), origin=3),   # the third id is the tuple of the first two
}

# node-attribute payloads (index 0 = none); nested mutables on purpose (C06/C11/C16)
ATTRS2 = {2019: 'x', 'node_for_adding': 1}      # keys that cannot travel as **kwargs
ATTRS = [
    {},
    {'label': 'A'},
    {'label': 'B', 'w': [1, {'k': [2]}]},
]


def conf_make(cls, removal=True, flavour=0, w=4):
    return {'cls': cls, 'removal': removal, 'flavour': flavour, 'w': w}


def conf_name(conf):
    return '%s/%s/%s/w%d' % (conf['cls'], 'rm' if conf['removal'] else 'acc',
                             FLAVOURS[conf['flavour']]['name'], conf['w'])


def node_of(conf, i):
    fl = FLAVOURS[conf['flavour']]
    return fl['z'] if i == 4 else fl['ids'][i]


def time_of(conf, t):
    if t is None:
        return None
    fl = FLAVOURS[conf['flavour']]
    v = fl['origin'] + t
    return fl['timetype'](v) if 'timetype' in fl else v


def new_graph(conf):
    import dynetx as dn
    cls = getattr(dn, conf['cls'])
    return cls(edge_removal=conf['removal'])


def spans(w):
    """every point (t, None) and every interval (t, e) with t < e <= w, simplest first"""
    out = [(t, None) for t in range(w)]
    out += [(t, e) for t in range(w) for e in range(t + 1, w + 1)]
    return out


def pairs_menu(cls):
    # (a,b), other endpoint order / reciprocal, (b,c), self-loop
    return [(0, 1), (1, 0), (1, 2), (0, 0)]


def alphabet_U1(conf):
    """one pair, deep: (a,b) [and (b,a)] with the full span menu + missing-t"""
    ops = []
    for (i, j) in [(0, 1), (1, 0)]:
        for (t, e) in spans(conf['w']):
            ops.append(('add', i, j, t, e))
    ops.append(('addnot', 0, 1))
    return ops


def alphabet_U0(conf):
    """one ordered pair only: small enough for the search to close (every reachable state of the one-pair machine)"""
    ops = [('add', 0, 1, t, e) for (t, e) in spans(conf['w'])]
    ops.append(('addnot', 0, 1))
    ops.append(('add', 0, 1, None, 2))        # vanishing time given, appearance missing
    return ops


def alphabet_LONG(conf):
    """one ordered pair, a wide window (conf['w'] >= 11): a point span at every instant and a two-instant interval at every
    third one — many separate runs on one pair (5 calls give up to 5 runs)"""
    w = conf['w']
    ops = [('add', 0, 1, t, None) for t in range(w)]
    ops += [('add', 0, 1, t, t + 2) for t in range(0, w - 1, 3)]
    return ops


def alphabet_UC(conf):
    """hidden-state universe: adds on two pairs, read-only query bundles in between, and the two removers"""
    w = conf['w']
    ops = [('add', 0, 1, 0, None), ('add', 0, 1, 2, None), ('add', 0, 1, 1, 3), ('add', 1, 2, 0, 2), ('add', 1, 2, w - 1, None),
           ('add', 2, 0, 1, None), ('node', 3, 1), ('observe',), ('clear',), ('clear_edges',)]
    return ops


def observe_bundle(G):
    """read-only queries; their results are discarded here (the state oracles look later): only side effects matter"""
    G.temporal_snapshots_ids()
    G.interactions_per_snapshots()
    list(G.stream_interactions())
    G.interactions()
    G.nodes()
    G.degree()
    G.number_of_interactions()
    for n in list(G.nodes())[:3]:
        G.neighbors(n)
        G.has_node(n)
        for t in G.temporal_snapshots_ids()[:2]:
            G.neighbors(n, t)
            G.degree([n], t)
            G.has_node(n, t)
    for t in G.temporal_snapshots_ids()[:3]:
        G.interactions(t=t)
        G.nodes(t)
        G.number_of_nodes(t)
        G.size(t)
    if G.is_directed():
        G.in_interactions()
        G.out_interactions()
        G.in_degree()
        G.out_degree()
        G.to_undirected()
    else:
        G.to_directed()
    ids = G.temporal_snapshots_ids()
    if not G.is_directed():
        for n in list(G.nodes())[:4]:
            G.node_presence(n)
            try:
                G.node_density(n)
                G.node_contribution(n)
            except ZeroDivisionError:
                pass
        for fn in (G.coverage, G.uniformity, G.density, G.avg_number_of_nodes):
            try:
                fn()
            except ZeroDivisionError:
                pass
    G.inter_event_time_distribution()
    if ids:
        G.interactions_per_snapshots(ids[0])
        G.interactions_per_snapshots(ids[-1] + 3)
        # instants at which nothing is present: before the first id, inside gaps, after the last id
        idle = [ids[0] - 1, ids[-1] + 1] + [a + 1 for a, b in zip(ids, ids[1:]) if b - a > 1][:4]
        for t in idle:
            G.size(t)
            G.number_of_interactions(t=t)
            G.number_of_nodes(t)
            G.interactions(t=t)
            G.degree(t=t)
        G.time_slice(ids[0])
        G.time_slice(ids[0], ids[-1])
        G.time_slice(ids[-1], ids[-1] + 1)


def bulk_ops(conf, sp):
    """bulk helpers in method form where the class has it, functional form always"""
    ops = []
    has = {'from': True, 'path': True,
           'star': conf['cls'] == 'DynGraph', 'cycle': conf['cls'] == 'DynGraph'}
    for (t, e) in sp:
        for kind, node_sets in (('from', [((0, 1), (1, 2)), ((1, 0), (0, 1)), ((0, 1), (0, 0), (1, 2))]),
                                ('path', [(0, 1), (0, 1, 2), (1, 0, 1)]),
                                ('star', [(0, 1), (0, 1, 2)]),
                                ('cycle', [(0, 1), (0, 1, 2)])):
            for ns in node_sets:
                if has[kind]:
                    if kind == 'from' or e is None:   # methods add_path/star/cycle take no e
                        ops.append(('bulk', kind, 'm', ns, t, e))
                if kind != 'from':
                    ops.append(('bulk', kind, 'f', ns, t, e))
    return ops


def alphabet_U2(conf, bulk=True, nodes=True):
    """several pairs, shallow: full pair menu, full span menu, bulk helpers, isolated nodes"""
    ops = []
    sp = spans(conf['w'])
    for (i, j) in pairs_menu(conf['cls']):
        for (t, e) in sp:
            ops.append(('add', i, j, t, e))
    ops.append(('addnot', 0, 1))
    ops.append(('addnot', 2, 3))
    ops.append(('add', 1, 2, None, 1))          # vanishing time given, appearance missing
    if bulk:
        w = conf['w']
        bsp = [(0, None), (1, None), (w - 1, None), (0, 2), (1, w)]
        ops += bulk_ops(conf, bsp)
        ops.append(('bulk', 'from', 'm', ((0, 1), (1, 2)), None, None))
        ops.append(('bulk', 'path', 'm', (0, 1, 2), None, None))
        # every other helper without t too, in both call forms, naming a node (3) that no add ever mentions: a helper that
        # registers nodes before it validates leaves it behind
        if conf['cls'] == 'DynGraph':
            ops.append(('bulk', 'star', 'm', (3, 0, 1), None, None))
            ops.append(('bulk', 'cycle', 'm', (3, 0, 1), None, None))
        ops.append(('bulk', 'star', 'f', (3, 0, 1), None, None))
        ops.append(('bulk', 'cycle', 'f', (2, 3, 0), None, None))
        ops.append(('bulk', 'path', 'f', (3, 2), None, None))
        # long bulk calls: a 10-link walk that revisits a hub and a 9-element bunch with interleaved sources
        ops.append(('bulk', 'path', 'm', (0, 1, 2, 0, 3, 1, 3, 2, 1, 0, 2), 1, None))
        ops.append(('bulk', 'from', 'm', ((0, 1), (2, 3), (0, 2), (1, 3), (0, 3), (2, 1), (3, 0), (1, 2), (0, 0)), w - 1, None))
        ops.append(('bulk', 'from3', 'm', ((0, 1), (1, 2)), 2, None))
        ops.append(('bulk', 'from3', 'm', ((1, 0), (0, 0)), 1, w))
    if nodes:
        ops += [('node', 3, 0), ('node', 3, 2), ('node', 0, 1), ('nodes', (2, 3), 1), ('uattr', 0, 2), ('uattr', 3, 1), ('uattrs', (0, 1), 1),
                ('nodes2', (0, 3))]
    return ops


def alphabet_two_pairs(conf):
    """two pairs sharing instants, both endpoint orders of the first"""
    ops = []
    for (i, j) in [(0, 1), (1, 0), (1, 2)]:
        for (t, e) in spans(conf['w']):
            ops.append(('add', i, j, t, e))
    return ops


def seeds_U3(conf):
    """hand-picked richer prefixes (non-initial start states)"""
    w = conf['w']
    tri = (('add', 0, 1, 0, 2), ('add', 1, 2, 1, 3), ('add', 0, 2, 0, w))
    recip = (('add', 0, 1, 0, 3), ('add', 1, 0, 1, w), ('add', 1, 2, 2, None))
    three_runs = (('add', 0, 1, 0, None), ('add', 0, 1, 2, 3), ('add', 1, 0, w - 1, None) if w >= 5 else ('add', 1, 0, 3, None))
    star_loop = (('bulk', 'star', 'f', (0, 1, 2), 1, None), ('add', 0, 0, 0, 2))
    attrs = (('node', 3, 2), ('node', 0, 1), ('add', 0, 1, 1, 3), ('nodes', (2, 3), 1))
    # the history reused in every test file, shifted into the window
    suite = (('add', 0, 1, 0, None), ('add', 0, 1, 0, 2), ('add', 0, 1, 2, 3), ('add', 0, 1, 3, None))
    return [tri, recip, three_runs, star_loop, attrs, suite]


def op_concrete(conf, op):
    """human-readable concrete call for samples / replay files"""
    n = lambda i: node_of(conf, i)
    T = lambda t: time_of(conf, t)
    k = op[0]
    if k == 'add':
        if op[3] is None:
            return 'add_interaction(%r, %r, t=None, e=%r)' % (n(op[1]), n(op[2]), T(op[4]))
        if op[4] is None:
            return 'add_interaction(%r, %r, t=%r)' % (n(op[1]), n(op[2]), T(op[3]))
        return 'add_interaction(%r, %r, t=%r, e=%r)' % (n(op[1]), n(op[2]), T(op[3]), T(op[4]))
    if k == 'addnot':
        return 'add_interaction(%r, %r)' % (n(op[1]), n(op[2]))
    if k == 'bulk':
        _, kind, form, ns, t, e = op
        if kind in ('from', 'from3'):
            arg = [(n(a), n(b)) + (({'t': [[T(0), T(1)]], 'w': 1},) if kind == 'from3' else ()) for a, b in ns]
            name = 'add_interactions_from'
        else:
            arg = [n(a) for a in ns]
            name = 'add_' + kind
        pre = 'G.%s(' % name if form == 'm' else 'dn.%s(G, ' % name
        return '%s%r, t=%r%s)' % (pre, arg, T(t), '' if e is None else ', e=%r' % T(e))
    if k == 'node':
        return 'add_node(%r, **%r)' % (n(op[1]), ATTRS[op[2]])
    if k == 'nodes':
        return 'add_nodes_from(%r, **%r)' % ([n(i) for i in op[1]], ATTRS[op[2]])
    if k == 'nodes2':
        return 'add_nodes_from(%r)' % ([(n(i), ATTRS2) for i in op[1]],)
    if k == 'observe':
        return 'observe_bundle(G)   # read-only queries: ids, counts, stream, interactions, nodes, degrees, neighbours'
    if k in ('clear', 'clear_edges'):
        return 'G.%s()' % k
    if k == 'uattr':
        return 'update_node_attr(%r, **%r)  # if the node exists' % (n(op[1]), ATTRS[op[2]])
    if k == 'uattrs':
        return 'update_node_attr_from(%r, **%r)  # existing nodes only' % ([n(i) for i in op[1]], ATTRS[op[2]])
    return repr(op)


def bulk_elements(op):
    """the (i, j) pairs a bulk op feeds to add_interaction, in order"""
    _, kind, form, ns, t, e = op
    ns = list(ns)
    if kind in ('from', 'from3'):
        return [tuple(p) for p in ns]
    if kind == 'path':
        return list(zip(ns[:-1], ns[1:]))
    if kind == 'star':
        return [(ns[0], x) for x in ns[1:]]
    if kind == 'cycle':
        return list(zip(ns, ns[1:] + [ns[0]]))
    raise ValueError(kind)


def apply_op(G, conf, op):
    """run one op on the real graph; returns 'ok' or the exception class name"""
    import copy
    import dynetx as dn
    n = lambda i: node_of(conf, i)
    T = lambda t: time_of(conf, t)
    k = op[0]
    try:
        if k == 'add':
            if op[3] is None:
                G.add_interaction(n(op[1]), n(op[2]), None, T(op[4]))
            elif op[4] is None:
                G.add_interaction(n(op[1]), n(op[2]), T(op[3]))
            else:
                G.add_interaction(n(op[1]), n(op[2]), T(op[3]), T(op[4]))
        elif k == 'addnot':
            G.add_interaction(n(op[1]), n(op[2]))
        elif k == 'bulk':
            _, kind, form, ns, t, e = op
            kw = {} if e is None else {'e': T(e)}
            if kind == 'from':
                G.add_interactions_from([(n(a), n(b)) for a, b in ns], T(t), **kw)
            elif kind == 'from3':
                # the documented 3-tuple form (u, v, d): d as handed out by interactions() of another graph
                G.add_interactions_from([(n(a), n(b), {'t': [[T(0), T(1)]], 'w': 1}) for a, b in ns], T(t), **kw)
            else:
                arg = [n(a) for a in ns]
                if form == 'm':
                    getattr(G, 'add_' + kind)(arg, T(t))
                else:
                    getattr(dn, 'add_' + kind)(G, arg, T(t), **kw)
        elif k == 'node':
            G.add_node(n(op[1]), **copy.deepcopy(ATTRS[op[2]]))
        elif k == 'nodes':
            G.add_nodes_from([n(i) for i in op[1]], **copy.deepcopy(ATTRS[op[2]]))
        elif k == 'nodes2':
            G.add_nodes_from([(n(i), dict(ATTRS2)) for i in op[1]])
        elif k == 'observe':
            observe_bundle(G)
        elif k == 'clear':
            G.clear()
        elif k == 'clear_edges':
            G.clear_edges()
        elif k == 'uattr':
            if G.has_node(n(op[1])):
                G.update_node_attr(n(op[1]), **copy.deepcopy(ATTRS[op[2]]))
        elif k == 'uattrs':
            G.update_node_attr_from([n(i) for i in op[1] if G.has_node(n(i))], **copy.deepcopy(ATTRS[op[2]]))
        else:
            raise AssertionError('unknown op %r' % (op,))
    except AssertionError:
        raise
    except Exception as ex:   # noqa: the outcome class is data for the oracle
        return type(ex).__name__
    return 'ok'


def op_to_json(op):
    return [list(map(list, x)) if (isinstance(x, tuple) and x and isinstance(x[0], tuple)) else
            (list(x) if isinstance(x, tuple) else x) for x in op]


def op_from_json(o):
    out = []
    for x in o:
        if isinstance(x, list):
            if x and isinstance(x[0], list):
                out.append(tuple(tuple(y) for y in x))
            else:
                out.append(tuple(x))
        else:
            out.append(x)
    return tuple(out)


def hist_to_json(h):
    return [op_to_json(op) for op in h]


def hist_from_json(h):
    return tuple(op_from_json(o) for o in h)
