"""Shared driver pieces for the history-exploring properties."""
import os
from .. import universes as U
from .. import engine, common


UNIVERSE_NOTE = (' || Universes actually run are listed in per_universe with their alphabet size, depth, new states per depth and '
                 'whether the search closed (fixpoint): U0 one ordered pair (explored to its fixpoint), U1 one pair in both endpoint orders, '
                 'U2 all pairs + bulk helpers + node/attribute ops, TWO two pairs sharing instants, U3 seeded non-initial states, LONG one pair '
                 'over an 11-instant window (many runs), UC adds + read-only query bundles + clear()/clear_edges(). Flavours: ints with a window '
                 'straddling 0; unsorted string ids with instants beyond 2**53; ints with negative origin; tuple ids; numpy int64 instants; '
                 'mutually incomparable ids (int, str, tuple, frozenset) — flavour 0 and one seed-selected flavour in full, the others on '
                 'reduced universes (quick), all in full (thorough).')


def flavours_for(tier, seed, allowed=(0, 1, 2, 3), thorough_full=None):
    """list of (flavour, reduced).  quick: flavour 0 and one more selected by VERIF_SEED get the full universes, every
    other allowed flavour a reduced set (U0, U2 depth 1, TWO depth 2, LONG, UC) so that type- and magnitude-dependent
    behaviour is exercised whatever the seed; thorough: everything in full.  The seed never samples inside a space: it
    rotates which complete bounded space is enumerated in full on top of the fixed ones."""
    allowed = list(allowed)
    if tier == 'thorough':
        if thorough_full is None:
            return [(f, False) for f in allowed]
        # properties with a large per-state fan-out: only the named flavours get the deep universes
        return [(f, f not in thorough_full) for f in allowed]
    rest = [f for f in allowed if f != 0]
    full = [0] if 0 in allowed else []
    if rest:
        full.append(rest[seed % len(rest)])
    return [(f, f not in full) for f in allowed]


REDUCED = {'which': ('U0', 'U2', 'TWO', 'LONG', 'UC'), 'params': {'u2_depth': 1, 'two_depth': 2, 'long_depth': 4, 'uc_depth': 3}}
# for properties whose per-state work is a large fan-out (every entry point x instant, every window, every API call ...)
REDUCED_LIGHT = {'which': ('U0', 'TWO', 'UC'), 'params': {'two_depth': 2, 'uc_depth': 3}}
NO_LONG = ('U0', 'U1', 'U2', 'TWO', 'U3', 'UC')
REDUCED_TINY = {'which': ('U0', 'TWO', 'UC'), 'params': {'two_depth': 1, 'uc_depth': 3}}


def window_for(tier, flavour, w):
    """thorough widens the window to 5 instants for flavours 0 and 1 only; the type/magnitude flavours keep 4"""
    return w if (tier != 'thorough' or flavour in (0, 1)) else 4


def tier_params(tier):
    if tier == 'thorough':
        return dict(w=5, u1_depth=6, u2_depth=3, two_depth=4, u3_depth=2)
    return dict(w=4, u1_depth=5, u2_depth=2, two_depth=3, u3_depth=1)


def explore_universes(spec, conf, tier, which=('U0', 'U1', 'U2', 'TWO', 'U3', 'LONG', 'UC'), keep_states=False, params=None, opfilter=None):
    """run the named universes for one configuration with a shared de-duplication set;
    returns (merged Result, per-universe summary list)"""
    p = dict(tier_params(tier))
    if params:
        p.update(params)
    seen = set()
    total = engine.Result()
    summary = []
    plans = []
    if 'U0' in which:
        plans.append(('U0', U.alphabet_U0(conf), p.get('u0_depth', 8), ()))
    if 'U1' in which:
        plans.append(('U1', U.alphabet_U1(conf), p['u1_depth'], ()))
    if 'U2' in which:
        plans.append(('U2', U.alphabet_U2(conf), p['u2_depth'], ()))
    if 'TWO' in which:
        plans.append(('TWO', U.alphabet_two_pairs(conf), p['two_depth'], ()))
    if 'U3' in which:
        plans.append(('U3', U.alphabet_U2(conf), p['u3_depth'], U.seeds_U3(conf)))
    plans = [(n, conf, a, d, s) for (n, a, d, s) in plans]
    if 'LONG' in which:
        lconf = dict(conf, w=11)
        plans.append(('LONG', lconf, U.alphabet_LONG(lconf), p.get('long_depth', 5 if tier == 'quick' else 6), ()))
    if 'UC' in which:
        plans.append(('UC', conf, U.alphabet_UC(conf), p.get('uc_depth', 4 if tier == 'quick' else 5), ()))
    for name, pconf, alpha, depth, seeds in plans:
        if pconf is not conf:
            seen = set()          # another window: its own de-duplication set
        if opfilter:
            alpha = [o for o in alpha if opfilter(o)]
            seeds = [s for s in seeds if all(opfilter(o) for o in s)]
        r = engine.bfs(spec, pconf, alpha, depth, seeds=seeds, seen=seen, keep_states=keep_states)
        summary.append({'universe': name, 'conf': U.conf_name(pconf), 'alphabet': len(alpha), 'depth': depth,
                        'seeds': len(seeds), 'states': r.states, 'transitions': r.transitions,
                        'per_depth_new_states': r.per_depth, 'outcomes': dict(r.outcomes), 'dead': r.dead,
                        'state_space_closed': r.closed})
        r.merge_into(total)
        if keep_states:
            total.state_hists += r.state_hists
    return total, summary


def case_of(conf, hist, **extra):
    c = {'conf': conf, 'history': U.hist_to_json(hist),
         'calls': [U.op_concrete(conf, op) for op in hist]}
    c.update(extra)
    return c


def tier_seed(argv_tier):
    tier = argv_tier          # the command line decides; VERIF_TIER is informational
    try:
        seed = int(os.environ.get('VERIF_SEED', '0'))
    except ValueError:
        seed = 0
    return tier, seed


# ---------------------------------------------------------------------------------------------
# generic "state oracle on every reachable state" property runner

class StateSpec(engine.Spec):
    """on_state = fn(conf, hist, G, M) -> (list of (sub, sig, detail), counters, sets)"""

    def __init__(self, prop, fn, pure=False):
        self.prop = prop
        self.fn = fn
        self.pure_queries = pure

    def on_state(self, conf, hist, G, M):
        trip, cnt, sets = self.fn(conf, hist, G, M)
        viols = [common.Violation(self.prop, sub, dict(sig, cls=conf['cls'], mode='rm' if conf['removal'] else 'acc'),
                                  case_of(conf, hist), det) for (sub, sig, det) in trip]
        return viols, cnt, sets


def run_state_property(prop, level, fn, tier, seed, classes=('DynGraph', 'DynDiGraph'), modes=(True,),
                       which=('U0', 'U1', 'U2', 'TWO', 'U3', 'LONG', 'UC'), flavours=(0, 1, 2, 3, 5, 6), rule='', params=None,
                       assumptions=(), vacuity=None, sample_fn=None, opfilter=None, reduced=None, acc_reduced=False, pure=False, thorough_full=None):
    known = common.load_known()
    rep = common.Report(prop, tier, seed, level)
    p = dict(tier_params(tier))
    if params:
        p.update(params)
    spec = StateSpec(prop, fn, pure)
    sums = {}
    reduced_cfg = reduced
    for fl, reduced in flavours_for(tier, seed, flavours, thorough_full):
        for cls in classes:
            for removal in modes:
                conf = U.conf_make(cls, removal, fl, window_for(tier, fl, p['w']))
                if reduced or (not removal and acc_reduced):
                    red = reduced_cfg or REDUCED
                    total, summary = explore_universes(spec, conf, tier, which=[u for u in red['which'] if u in which],
                                                       params=dict(params or {}, **red['params']), opfilter=opfilter)
                else:
                    total, summary = explore_universes(spec, conf, tier, which=which, params=params, opfilter=opfilter)
                rep.cov['per_universe'] += summary
                rep.cov['states'] += total.states
                rep.cov['transitions'] += total.transitions
                for k, v in total.counters.items():
                    sums[k] = sums.get(k, 0) + v
                for k, v in total.sets.items():
                    sums['distinct_' + k] = sums.get('distinct_' + k, 0) + len(v)
                rep.add_violations(total.violations, known)
    rep.cov['traces_validated_against_impl'] = rep.cov['transitions']
    rep.cov['evaluations'] = sums.get('evaluations', rep.cov['states'])
    rep.cov['distinct_nontrivial'] = sums.get('nontrivial', 0)
    rep.cov['counters'] = sums
    if vacuity:
        for name, least in vacuity.items():
            if sums.get(name, 0) < least:
                rep.broken.append('%s = %d < %d: the exploration did not exercise what the property is about'
                                  % (name, sums.get(name, 0), least))
    if sample_fn:
        for s in sample_fn(p):
            rep.sample(s)
    rep.assumptions = ['PYTHONHASHSEED=0', 'deterministic library; state key = structural walk of G.__dict__ + model',
                       "the state's own has_interaction matrix is taken as the presence relation"] + list(assumptions)
    return rep.finish(known, rule + UNIVERSE_NOTE)


def replay_state_property(prop, fn, case):
    conf = case['conf']
    hist = U.hist_from_json(case['history'])
    G, M, outs = engine.execute(conf, hist)
    trip, _, _ = fn(conf, hist, G, M)
    return [common.Violation(prop, sub, dict(sig, cls=conf['cls'], mode='rm' if conf['removal'] else 'acc'),
                             case_of(conf, hist), det) for (sub, sig, det) in trip]


def default_samples(p):
    out = []
    for cls in ('DynGraph', 'DynDiGraph'):
        conf = U.conf_make(cls, True, 0, p['w'])
        for h in U.seeds_U3(conf)[:2]:
            G, M, outs = engine.execute(conf, h)
            out.append({'conf': U.conf_name(conf), 'calls': [U.op_concrete(conf, op) for op in h],
                        'outcomes': [o[0] for o in outs], 'stream': repr(list(G.stream_interactions())),
                        'snapshot_ids': list(G.temporal_snapshots_ids())})
    return out
