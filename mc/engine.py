"""Explicit-state breadth-first search over the real transition function (DESIGN.md §2.2).

A state is the history reaching it; every transition replays history+op on a fresh object, so
no two executions share anything.  Level-synchronous; a level is sharded over worker processes
(fork) and merged in a fixed order, so a run is deterministic whatever the worker timing.
Phase A executes every transition (outcome vs model, transition checks, state key); the master
de-duplicates; phase B runs the state oracle once per distinct new state.
"""
import multiprocessing as mp
import signal
import collections

from .universes import new_graph, apply_op
from .model import Model
from .observe import canon_impl, digest
from .observe import snapshot as observe_snapshot
from . import common

LEGIT = ('ok', 'ValueError', 'NetworkXError')
EXEC_TIMEOUT_S = 30


class ExecTimeout(Exception):
    pass


def crash_violation(prop, where, hist, ex):
    """an exception escaping an oracle: if it was raised inside the library (innermost frame under the
    import root) it is an observation — the property's queries must not raise — otherwise it is a
    harness error and is re-raised (exit 2)"""
    import traceback
    tb = traceback.extract_tb(ex.__traceback__)
    inner = tb[-1].filename if tb else ''
    if not inner.startswith(common.REPO.rstrip('/') + '/'):
        raise ex
    return {'property': prop, 'sub': 'observation', 'sig': {'kind': 'library-raised-during-observation', 'exc': type(ex).__name__,
                                                            'where': '%s:%s' % (tb[-1].filename.split('/')[-1], tb[-1].name)},
            'case': {'history': repr(hist)}, 'detail': {'exception': repr(ex)[:300], 'phase': where,
                                                        'trace': [('%s:%d %s' % (f.filename.split('/')[-1], f.lineno, f.name)) for f in tb[-4:]]}}


def _alarm(signum, frame):
    raise ExecTimeout()


def execute(conf, hist):
    """replay a history on a fresh real graph beside a fresh model"""
    G = new_graph(conf)
    M = Model(conf)
    outs = []
    M.prev = None
    for idx, op in enumerate(hist):
        if idx == len(hist) - 1:
            prev = M.clone()      # the model as it was before the last op (for transition oracles)
            M.prev = prev
        exp = M.expected(op)
        out = apply_op(G, conf, op)
        M.commit(op, out)
        outs.append((out, exp[0], exp[1]))
    return G, M, outs


def state_key(conf, G, M, hist=()):
    """structural key of a state.  Histories that contain a read-only query bundle ('observe') are never merged with
    anything else: a cache living outside the object (module level, functools) would make two states with identical
    G.__dict__ behave differently afterwards, and such hidden state is exactly what those histories are there to expose."""
    if any(op[0] == 'observe' for op in hist):
        return digest(canon_impl(G), M.canon(), repr(hist))
    return digest(canon_impl(G), M.canon())


class Spec:
    """what a property plugs into the search; all callbacks run inside worker processes"""
    prop = None

    def on_transition(self, conf, hist, op, G, M, out, exp):
        """-> (violations, counters)   called for every executed transition"""
        return [], {}

    def on_state(self, conf, hist, G, M):
        """-> (violations, counters, sets)   called once per distinct state"""
        return [], {}, {}

    # True when on_state only issues read-only queries on G: the engine then requires the structural state of G to be
    # answer the same queries identically before and after the oracle ran (a query that writes — e.g. setdefault on the
    # snapshot table — is a defect; a correctly maintained memo is not, so the comparison is observational)
    pure_queries = False

    def expand(self, conf, hist, G, M, outs):
        """whether successors of this state are explored"""
        return True


_CTX = None


def _phase_a(chunk):
    spec, conf, alphabet = _CTX
    res = []
    signal.signal(signal.SIGALRM, _alarm)
    for hist in chunk:
        for op in alphabet:
            h2 = hist + (op,)
            signal.setitimer(signal.ITIMER_REAL, EXEC_TIMEOUT_S)
            try:
                G, M, outs = execute(conf, h2)
                out, exp, _ = outs[-1]
                dead = out not in LEGIT
                try:
                    viols, cnt = spec.on_transition(conf, hist, op, G, M, out, exp)
                    vj = [v.to_json() for v in viols]
                except ExecTimeout:
                    raise
                except Exception as ex:
                    vj, cnt = [crash_violation(spec.prop, 'transition', h2, ex)], {}
                key = None if dead else state_key(conf, G, M, h2)
                cls = M.classes[-1] if (M.classes and out == 'ok' and op[0] in ('add',)) else None
                res.append((key, h2, out, exp, dead, vj, cnt, cls,
                            bool(spec.expand(conf, h2, G, M, outs)) and not dead))
            except ExecTimeout:
                res.append((None, h2, 'TIMEOUT', None, True, [{'property': spec.prop, 'sub': 'timeout',
                            'sig': {'kind': 'timeout'}, 'case': {}, 'detail': {'history': repr(h2)}}], {}, None, False))
            finally:
                signal.setitimer(signal.ITIMER_REAL, 0)
    return res


def _phase_b(chunk):
    spec, conf, alphabet = _CTX
    res = []
    signal.signal(signal.SIGALRM, _alarm)
    for hist in chunk:
        signal.setitimer(signal.ITIMER_REAL, EXEC_TIMEOUT_S * 4)
        try:
            G, M, outs = execute(conf, hist)
            try:
                before = observe_snapshot(G, conf) if spec.pure_queries else None
                viols, cnt, sets = spec.on_state(conf, hist, G, M)
                vj = [v.to_json() for v in viols]
                if spec.pure_queries:
                    # observational, not structural: a correctly maintained memo may legitimately appear in G.__dict__
                    after = observe_snapshot(G, conf)
                    diff = [k for k in before if before[k] != after.get(k)]
                    if diff:
                        vj.append({'property': spec.prop, 'sub': 'purity', 'sig': {'kind': 'read-only-queries-changed-what-the-graph-answers',
                                   'components': diff, 'cls': conf['cls']},
                                   'case': {'conf': conf, 'history': [list(map(lambda x: list(x) if isinstance(x, tuple) else x, op)) for op in hist]},
                                   'detail': {'differs in': diff, 'before': {d: repr(before[d])[:200] for d in diff},
                                              'after': {d: repr(after[d])[:200] for d in diff}}})
            except ExecTimeout:
                raise
            except Exception as ex:
                vj, cnt, sets = [crash_violation(spec.prop, 'state', hist, ex)], {}, {}
            res.append((hist, vj, cnt, sets))
        except ExecTimeout:
            res.append((hist, [{'property': spec.prop, 'sub': 'timeout', 'sig': {'kind': 'timeout'}, 'case': {},
                                'detail': {'history': repr(hist)}}], {}, {}))
        finally:
            signal.setitimer(signal.ITIMER_REAL, 0)
    return res


def _chunks(items, n):
    if not items:
        return []
    size = max(1, min(64, (len(items) + n * 4 - 1) // (n * 4)))
    return [items[i:i + size] for i in range(0, len(items), size)]


def _viol_from_json(j):
    return common.Violation(j['property'], j['sub'], {k: v for k, v in j['sig'].items() if k != 'sub'},
                            j['case'], j['detail'])


class Result:
    def __init__(self):
        self.states = 0
        self.transitions = 0
        self.per_depth = []
        self.outcomes = collections.Counter()
        self.classes = collections.Counter()
        self.counters = collections.Counter()
        self.sets = collections.defaultdict(set)
        self.violations = []       # one Violation per violation class (with .count), see add_viol
        self._vc = {}
        self.state_hists = []     # one representative history per distinct state
        self.closed = False       # the search reached a fixpoint: no unexplored state is left at any depth
        self.dead = 0

    def add_viol(self, j):
        """keep the first witness of every violation class and count the rest — never drop a class because another
        one (for instance a known finding) is frequent"""
        import json as _json
        k = j['property'] + '|' + j['sub'] + '|' + _json.dumps(j['sig'], sort_keys=True, default=repr)
        if k in self._vc:
            self._vc[k].count += 1
        else:
            v = _viol_from_json(j)
            v.count = 1
            self._vc[k] = v
            self.violations.append(v)

    def merge_into(self, other):
        other.states += self.states
        other.transitions += self.transitions
        other.outcomes.update(self.outcomes)
        other.classes.update(self.classes)
        other.counters.update(self.counters)
        for k, v in self.sets.items():
            other.sets[k] |= v
        other.violations += self.violations
        other.dead += self.dead


def bfs(spec, conf, alphabet, depth, seeds=(), seen=None, keep_states=False, workers=None, max_viol=200):
    """explore all histories of <= depth ops over `alphabet` from the empty graph and from each
    seed prefix; returns a Result.  `seen` (set of state digests) may be shared across calls."""
    global _CTX
    workers = workers or common.WORKERS
    seen = set() if seen is None else seen
    R = Result()
    _CTX = (spec, conf, list(alphabet))
    ctx = mp.get_context('fork')
    with ctx.Pool(workers) as pool:
        # level 0: the empty graph and the seed prefixes (state oracle runs on them too)
        # `seen` (possibly shared between runs) only decides whether the state oracle still has to
        # run on a state; `local` decides expansion, so that a state already met in another universe
        # is still expanded with *this* run's alphabet.
        local = set()
        frontier = []
        new_states = []
        for h in [()] + [tuple(s) for s in seeds]:
            G, M, outs = execute(conf, h)
            if any(o[0] not in LEGIT for o in outs):
                R.dead += 1
                R.dead_seeds = getattr(R, 'dead_seeds', []) + [repr(h), repr(outs)]
                continue
            k = state_key(conf, G, M, h)
            if k in local:
                continue
            local.add(k)
            frontier.append(h)
            if k not in seen:
                seen.add(k)
                new_states.append(h)
        d = 0
        while True:
            # phase B on the new states of this level
            for part in pool.imap(_phase_b, _chunks(new_states, workers)):
                for hist, viols, cnt, sets in part:
                    R.states += 1
                    R.counters.update(cnt)
                    for k, v in sets.items():
                        R.sets[k] |= set(v)
                    for j in viols:
                        R.add_viol(j)
                    if keep_states:
                        R.state_hists.append(hist)
            R.per_depth.append(len(new_states))
            if not frontier:
                R.closed = True      # every reachable state over this alphabet has been expanded
            if d >= depth or not frontier:
                break
            # phase A: every transition out of the frontier
            nxt = []
            for part in pool.imap(_phase_a, _chunks(frontier, workers)):
                for key, h2, out, exp, dead, viols, cnt, cls, expand in part:
                    R.transitions += 1
                    R.outcomes[out] += 1
                    if cls:
                        R.classes[cls] += 1
                    R.counters.update(cnt)
                    for j in viols:
                        R.add_viol(j)
                    if dead:
                        R.dead += 1
                        continue
                    if key in local:
                        continue
                    local.add(key)
                    fresh = key not in seen
                    seen.add(key)
                    nxt.append((h2, expand, fresh))
            new_states = [h for h, _, fresh in nxt if fresh]
            frontier = [h for h, ex, _ in nxt if ex]
            d += 1
    _CTX = None
    return R
