"""C15 — temporal_dag is acyclic, sound and window-respecting."""
import collections
import networkx as nx
from .. import graphs, pathsoracle as po
from ..universes import observe_bundle
from ..common import Violation
from . import pathbase

PROP = 'C15'
LEVEL = 'model_checking'


def eval_graph(c, sub):
    import dynetx.algorithms as al
    cnt = collections.Counter()
    viols = []
    nodes, T, pairs, atoms = graphs.universe(c)
    directed = c['cls'] == 'DynDiGraph'
    G = graphs.build(c, sub)
    P = graphs.presence_of(c, sub)
    ids = sorted(set(t for (_, _, t) in P))
    gnodes = list(G.nodes())
    case = lambda q: {'gconf': c, 'atoms': list(sub), 'query': q}
    if not ids:
        cnt['queries'] += 1
        try:
            r = al.temporal_dag(G, nodes[0])
            if not (len(r[0]) == 0 and list(r[1]) == [] and list(r[2]) == []):
                viols.append(Violation(PROP, 'empty', {'kind': 'no-snapshots-not-empty', 'cls': c['cls']}, case([repr(nodes[0])]), {'got': repr(r)[:200]}))
        except Exception as ex:
            viols.append(Violation(PROP, 'empty', {'kind': 'no-snapshots-raises', 'exc': type(ex).__name__, 'cls': c['cls']}, case([repr(nodes[0])]), {}))
        return viols, cnt
    for u in gnodes:
        for v in [None] + nodes:
            for (s, e) in po.all_windows(T, ids):
                cnt['queries'] += 1
                try:
                    r = al.temporal_dag(G, u, v, s, e)
                except Exception as ex:
                    viols.append(Violation(PROP, 'call', {'kind': 'valid-window-raises', 'exc': type(ex).__name__, 'cls': c['cls']}, case([repr(u), repr(v), s, e]),
                                           {'graph': graphs.describe(c, sub), 'call': 'temporal_dag(G, %r, %r, start=%r, end=%r)' % (u, v, s, e), 'raised': repr(ex)[:200]}))
                    continue
                bad = po.check_dag(P, directed, ids, u, v, s, e, r)
                if r[0].number_of_edges() >= 2:
                    cnt['dags_with_2plus_edges'] += 1
                if bad:
                    viols.append(Violation(PROP, 'dag', {'kind': 'dag-condition', 'conditions': bad, 'cls': c['cls'],
                                                         'root_selfloop': any((u, u, t) in P for t in ids)},
                                           case([repr(u), repr(v), s, e]),
                                           {'graph': graphs.describe(c, sub), 'call': 'temporal_dag(G, %r, %r, start=%r, end=%r)' % (u, v, s, e),
                                            'failed': bad, 'edges': repr(sorted(r[0].edges()))[:300], 'sources': repr(r[1]), 'targets': repr(r[2])}))
        for (s, e) in po.invalid_windows(ids):
            cnt['queries'] += 1
            cnt['invalid_windows'] += 1
            try:
                al.temporal_dag(G, u, None, s, e)
                viols.append(Violation(PROP, 'window', {'kind': 'invalid-window-accepted', 'cls': c['cls'],
                                                        'which': 'start>end' if (s is not None and e is not None and s > e) else
                                                        ('start-below-first' if (s is not None and s < ids[0]) else 'end-above-last')},
                                       case([repr(u), None, s, e]),
                                       {'graph': graphs.describe(c, sub), 'call': 'temporal_dag(G, %r, None, start=%r, end=%r)' % (u, s, e), 'ids': ids}))
            except ValueError:
                pass
            except Exception as ex:
                viols.append(Violation(PROP, 'window', {'kind': 'invalid-window-wrong-exception', 'exc': type(ex).__name__, 'cls': c['cls']},
                                       case([repr(u), None, s, e]), {'graph': graphs.describe(c, sub)}))
    # query -> grow the same object -> query again: the DAG must be that of the current graph
    if 2 <= len(sub):
        import dynetx as dn
        H = getattr(dn, c['cls'])()
        Pp = set()
        chosen = sorted((atoms[i] for i in sub), key=lambda a: (a[2], a[0], a[1]))
        for step, (i, j, t) in enumerate(chosen):
            H.add_interaction(nodes[i], nodes[j], T[t])
            Pp.add((nodes[i], nodes[j], T[t]))
            if not directed:
                Pp.add((nodes[j], nodes[i], T[t]))
            pids = sorted(set(x[2] for x in Pp))
            observe_bundle(H)          # read-only queries (also at idle instants) between the steps: they must not matter
            for u in list(H.nodes()):
                cnt['queries'] += 1
                cnt['incremental_queries'] += 1
                try:
                    bad = po.check_dag(Pp, directed, pids, u, None, None, None, al.temporal_dag(H, u))
                except Exception as ex:
                    bad = ['raises-' + type(ex).__name__]
                if bad:
                    viols.append(Violation(PROP, 'incremental', {'kind': 'dag-does-not-track-the-graph', 'conditions': bad, 'cls': c['cls']},
                                           case(['incremental', step, repr(u)]),
                                           {'graph so far': ['add_interaction(%r, %r, t=%r)' % (nodes[a], nodes[b], T[tt]) for (a, b, tt) in chosen[:step + 1]],
                                            'failed': bad}))
                    break
    if 2 <= len(sub) and len(set(t for (_, _, t) in P)) >= 1:
        lo_, hi_ = T[0], T[-1]
        try:
            H.clear()
            Pm = set()
            for (i, j, t) in sorted(chosen, key=lambda a: (-a[2], a[0], a[1])):
                tm = lo_ + hi_ - T[t]
                H.add_interaction(nodes[i], nodes[j], tm)
                Pm.add((nodes[i], nodes[j], tm))
                if not directed:
                    Pm.add((nodes[j], nodes[i], tm))
            mids = sorted(set(x[2] for x in Pm))
            for u in list(H.nodes()):
                cnt['queries'] += 1
                bad = po.check_dag(Pm, directed, mids, u, None, None, None, al.temporal_dag(H, u))
                if not bad:
                    bad = po.check_dag(Pm, directed, mids, u, None, mids[0], mids[-1], al.temporal_dag(H, u, None, mids[0], mids[-1]))
                if bad:
                    viols.append(Violation(PROP, 'incremental', {'kind': 'dag-after-clear-and-refill-differs', 'conditions': bad, 'cls': c['cls']},
                                           case(['second-life', repr(u)]),
                                           {'first life': graphs.describe(c, sub), 'then': 'clear() and the same interactions at mirrored instants', 'failed': bad}))
                    break
        except Exception as ex:
            viols.append(Violation(PROP, 'incremental', {'kind': 'second-life-raises', 'exc': type(ex).__name__, 'cls': c['cls']}, case(['second-life']),
                                   {'first life': graphs.describe(c, sub), 'raised': repr(ex)[:200]}))
    if len(ids) >= 2 and len(sub) >= 2:
        cnt['nontrivial_graphs'] += 1
    return viols[:6], cnt


def run(tier, seed):
    cfs = pathbase.confs(tier, seed, loops_k=3)
    import dynetx.algorithms as al
    c0 = cfs[0]
    sub = (0, 4, 8)
    G = graphs.build(c0, sub)
    r = al.temporal_dag(G, graphs.universe(c0)[0][0])
    sample = {'universe': graphs.gconf_name(c0), 'graph': graphs.describe(c0, sub), 'root': graphs.universe(c0)[0][0],
              'dag_edges': repr(sorted(r[0].edges())), 'sources': repr(r[1]), 'targets': repr(r[2])}
    return pathbase.run(
        PROP, LEVEL, eval_graph, tier, seed, cfs, nontrivial_key='nontrivial_graphs',
        vacuity={'dags_with_2plus_edges': 100, 'invalid_windows': 100}, samples=[sample],
        rule='every temporal graph of the universes in per_universe (self-loops included) x every root in the graph x every target x every '
             'valid integer window and the None defaults: DAG acyclic, every edge X@s->Y@t an interaction at t inside the window with s<t '
             '(s==t only from a source), sources == occurrences of the root at window ids where it has a neighbour, targets occurrences of v, '
             'sources/targets are DAG nodes; every invalid window (start below first id, end above last, start>end) raises ValueError; the graph '
             'without snapshots yields an empty DAG; non-trivial = graph with >= 2 snapshot ids and >= 2 timed interactions')


def replay(case):
    v, _ = eval_graph(case['gconf'], tuple(case['atoms']))
    return v
