"""Scratch directory and I/O menu shared by the file properties (C09, C10, C18)."""
import atexit
import os
import shutil
import tempfile
import gzip
import bz2

_DIR = None


def scratch():
    """private scratch directory outside /repo and /verif.  Created in the master process before
    the worker pool is forked (workers inherit the path and use pid-prefixed file names);
    removed by the master at exit."""
    global _DIR
    if _DIR is None or not os.path.isdir(_DIR):
        base = '/dev/shm' if os.path.isdir('/dev/shm') and os.access('/dev/shm', os.W_OK) else tempfile.gettempdir()
        _DIR = tempfile.mkdtemp(prefix='dynetx-verif-', dir=base)
        atexit.register(shutil.rmtree, _DIR, True)
    return _DIR


def fname(stem, ext):
    return os.path.join(scratch(), 'p%d-%s%s' % (os.getpid(), stem, ext))


DELIMS = [' ', ',', '\t', ';', '%']       # '%' : a delimiter that is also a printf directive
ENCODINGS = ['utf-8', 'latin-1', 'ascii', 'utf-8-sig']    # utf-8-sig: the writer encodes line by line, so every line carries a BOM
TARGETS = ['plain', 'gz', 'gzip', 'bz2', 'fileobj']
EXT = {'plain': '.txt', 'gz': '.gz', 'gzip': '.gzip', 'bz2': '.bz2', 'fileobj': '.bin'}


def raw_bytes(path, target):
    if target in ('gz', 'gzip'):
        with gzip.open(path, 'rb') as f:
            return f.read()
    if target == 'bz2':
        with bz2.BZ2File(path, 'rb') as f:
            return f.read()
    with open(path, 'rb') as f:
        return f.read()


def menu(full):
    """(delimiter, encoding, target) combinations: the whole product, or its diagonal"""
    if full:
        return [(d, e, t) for d in DELIMS for e in ENCODINGS for t in TARGETS]
    out = []
    for i, t in enumerate(TARGETS):
        out.append((DELIMS[i % len(DELIMS)], ENCODINGS[i % len(ENCODINGS)], t))
    return out
